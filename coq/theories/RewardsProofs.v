(* C11 — proofs about the reward model (Rewards.v) and the translated emission functions (gen/Pure.v). *)
From Coq Require Import Sorted.
From ZV Require Import Prelude GoSem Rewards.
From ZV.gen Require Import Consts Pure PureCursor.
Open Scope Z_scope.
Ltac Zify.zify_post_hook ::= Z.div_mod_to_equations.

(* ------------------------------------------------------------------ facts about the dumped constants.
   Each is re-checked by computation on the regenerated Consts.v: a changed table or percentage that
   violates one of them breaks the build of this file. *)

(* largest per-epoch amount for which amount * 100 still fits an int64 *)
Definition emission_cap : Z := 92233720368547758.

Lemma znn_table_ok : forallb (fun x => (0 <=? x) && (x <=? emission_cap)) NetworkZnnRewardConfig = true.
Proof. vm_compute. reflexivity. Qed.
Lemma qsr_table_ok : forallb (fun x => (0 <=? x) && (x <=? emission_cap)) NetworkQsrRewardConfig = true.
Proof. vm_compute. reflexivity. Qed.
Lemma znn_table_len : 0 < Z.of_nat (length NetworkZnnRewardConfig) < 1000000.
Proof. split; apply Z.ltb_lt; vm_compute; reflexivity. Qed.
Lemma qsr_table_len : 0 < Z.of_nat (length NetworkQsrRewardConfig) < 1000000.
Proof. split; apply Z.ltb_lt; vm_compute; reflexivity. Qed.
Lemma tickdur_ok : 2 <= RewardTickDurationInEpochs < two63.
Proof. split; [apply Z.leb_le | apply Z.ltb_lt]; vm_compute; reflexivity. Qed.
Lemma mpe_ok : 0 < MomentumsPerEpoch < two63.
Proof. split; apply Z.ltb_lt; vm_compute; reflexivity. Qed.
Lemma big100_ok : Big100 = 100.
Proof. vm_compute. reflexivity. Qed.

(* the percentage split of the per-epoch emission *)
Lemma znn_percentages :
  0 <= DelegationZnnRewardPercentage /\ 0 <= MomentumProducingZnnRewardPercentage /\
  0 <= SentinelZnnRewardPercentage /\ 0 <= LiquidityZnnRewardPercentage /\
  DelegationZnnRewardPercentage + MomentumProducingZnnRewardPercentage +
  SentinelZnnRewardPercentage + LiquidityZnnRewardPercentage <= 100.
Proof. repeat split; apply Z.leb_le; vm_compute; reflexivity. Qed.
Lemma qsr_percentages :
  0 <= StakingQsrRewardPercentage /\ 0 <= SentinelQsrRewardPercentage /\ 0 <= LiquidityQsrRewardPercentage /\
  StakingQsrRewardPercentage + SentinelQsrRewardPercentage + LiquidityQsrRewardPercentage <= 100.
Proof. repeat split; apply Z.leb_le; vm_compute; reflexivity. Qed.

Lemma table_in_range l x :
  forallb (fun x => (0 <=? x) && (x <=? emission_cap)) l = true -> In x l -> 0 <= x <= emission_cap.
Proof. intros H Hin. rewrite forallb_forall in H. specialize (H x Hin). lia. Qed.

(* ------------------------------------------------------------------ the translated emission functions never panic *)

Lemma two_pow_64 : 2 ^ 64 = two64. Proof. reflexivity. Qed.
Lemma two_pow_63 : 2 ^ 63 = two63. Proof. reflexivity. Qed.

(* the table lookup shared by NetworkZnnRewardPerEpoch / NetworkQsrRewardPerEpoch *)
Lemma table_lookup_ok (tbl : list Z) e :
  0 < Z.of_nat (length tbl) < 1000000 -> 0 <= e < two64 ->
  exists z, In z tbl /\
  (guard (negb (RewardTickDurationInEpochs =? 0))
     (let tick := wrapS 64 (wrapU 64 (Z.quot e RewardTickDurationInEpochs)) in
      if Z.of_nat (length tbl) <=? tick
      then guard ((0 <=? wrapS 64 (Z.of_nat (length tbl) - 1)) && (wrapS 64 (Z.of_nat (length tbl) - 1) <? Z.of_nat (length tbl)))
                 (Ok (nth (Z.to_nat (wrapS 64 (Z.of_nat (length tbl) - 1))) tbl 0))
      else guard ((0 <=? tick) && (tick <? Z.of_nat (length tbl))) (Ok (nth (Z.to_nat tick) tbl 0)))) = Ok z.
Proof.
  intros Hlen He. pose proof tickdur_ok as Hd.
  destruct (RewardTickDurationInEpochs =? 0) eqn:E0; [lia|]. cbn [negb guard].
  rewrite Z.quot_div_nonneg by lia.
  assert (Hq : 0 <= e / RewardTickDurationInEpochs < two63).
  { split; [apply Z.div_pos; lia|]. apply Z.div_lt_upper_bound; [lia|]. unfold two64, two63 in *. nia. }
  rewrite (wrapU64_small (e / RewardTickDurationInEpochs)) by (unfold two64, two63 in *; lia).
  rewrite (wrapS64_small (e / RewardTickDurationInEpochs)) by (unfold two63 in *; lia).
  rewrite (wrapS64_small (Z.of_nat (length tbl) - 1)) by (unfold two63; lia).
  cbv zeta.
  destruct (Z.of_nat (length tbl) <=? e / RewardTickDurationInEpochs) eqn:E1.
  - destruct ((0 <=? Z.of_nat (length tbl) - 1) && (Z.of_nat (length tbl) - 1 <? Z.of_nat (length tbl))) eqn:E2; [|lia].
    cbn [guard]. eexists; split; [|reflexivity]. apply nth_In. lia.
  - destruct ((0 <=? e / RewardTickDurationInEpochs) && (e / RewardTickDurationInEpochs <? Z.of_nat (length tbl))) eqn:E2; [|lia].
    cbn [guard]. eexists; split; [|reflexivity]. apply nth_In. lia.
Qed.

Lemma znn_per_epoch_ok e : 0 <= e < two64 ->
  exists z, NetworkZnnRewardPerEpoch e = Ok z /\ 0 <= z <= emission_cap.
Proof.
  intros He. destruct (table_lookup_ok NetworkZnnRewardConfig e znn_table_len He) as [z [Hin Hz]].
  exists z. split; [exact Hz|]. exact (table_in_range _ _ znn_table_ok Hin).
Qed.
Lemma qsr_per_epoch_ok e : 0 <= e < two64 ->
  exists z, NetworkQsrRewardPerEpoch e = Ok z /\ 0 <= z <= emission_cap.
Proof.
  intros He. destruct (table_lookup_ok NetworkQsrRewardConfig e qsr_table_len He) as [z [Hin Hz]].
  exists z. split; [exact Hz|]. exact (table_in_range _ _ qsr_table_ok Hin).
Qed.

(* (z * p) / 100 in int64 arithmetic, for a table amount z and a percentage p *)
Lemma pct_exact z p : 0 <= z <= emission_cap -> 0 <= p <= 100 ->
  wrapS 64 (Z.quot (wrapS 64 (z * p)) 100) = z * p / 100.
Proof.
  intros Hz Hp. unfold emission_cap in Hz.
  assert (0 <= z * p <= 9223372036854775800) by nia.
  rewrite (wrapS64_small (z * p)) by (unfold two63; lia).
  rewrite Z.quot_div_nonneg by lia.
  apply wrapS64_small. unfold two63. lia.
Qed.
Lemma pct_mpe_exact x : 0 <= x < two63 ->
  wrapS 64 (Z.quot x MomentumsPerEpoch) = x / MomentumsPerEpoch.
Proof.
  intros Hx. pose proof mpe_ok. rewrite Z.quot_div_nonneg by lia.
  apply wrapS64_small. unfold two63 in *. split; [|apply Z.div_lt_upper_bound; nia].
  assert (0 <= x / MomentumsPerEpoch) by (apply Z.div_pos; lia). lia.
Qed.

Lemma pillar_per_momentum_ok e : 0 <= e < two64 ->
  exists z, NetworkZnnRewardPerEpoch e = Ok z /\ 0 <= z <= emission_cap /\
  PillarRewardPerMomentum e =
    Ok (z * DelegationZnnRewardPercentage / 100 / MomentumsPerEpoch,
        z * MomentumProducingZnnRewardPercentage / 100 / MomentumsPerEpoch).
Proof.
  intros He. destruct (znn_per_epoch_ok e He) as [z [Hz Hr]]. exists z. split; [exact Hz|]. split; [exact Hr|].
  pose proof znn_percentages as Hp. pose proof mpe_ok as Hm.
  unfold PillarRewardPerMomentum. rewrite Hz. cbn [bind].
  destruct (MomentumsPerEpoch =? 0) eqn:E0; [lia|]. cbn [negb guard].
  rewrite !pct_exact by lia.
  assert (0 <= z * DelegationZnnRewardPercentage / 100 < two63).
  { unfold emission_cap, two63 in *. split; [apply Z.div_pos; nia|]. apply Z.div_lt_upper_bound; nia. }
  assert (0 <= z * MomentumProducingZnnRewardPercentage / 100 < two63).
  { unfold emission_cap, two63 in *. split; [apply Z.div_pos; nia|]. apply Z.div_lt_upper_bound; nia. }
  rewrite !pct_mpe_exact by assumption. reflexivity.
Qed.

Lemma sentinel_for_epoch_ok e : 0 <= e < two64 ->
  exists z q, NetworkZnnRewardPerEpoch e = Ok z /\ NetworkQsrRewardPerEpoch e = Ok q /\
  0 <= z <= emission_cap /\ 0 <= q <= emission_cap /\
  SentinelRewardForEpoch e = Ok (z * SentinelZnnRewardPercentage / 100, q * SentinelQsrRewardPercentage / 100).
Proof.
  intros He. destruct (znn_per_epoch_ok e He) as [z [Hz Hr]]. destruct (qsr_per_epoch_ok e He) as [q [Hq Hs]].
  exists z, q. repeat split; try assumption; try lia.
  pose proof znn_percentages. pose proof qsr_percentages.
  unfold SentinelRewardForEpoch. rewrite Hz, Hq. cbn [bind]. rewrite !pct_exact by lia. reflexivity.
Qed.
Lemma liquidity_for_epoch_ok e : 0 <= e < two64 ->
  exists z q, NetworkZnnRewardPerEpoch e = Ok z /\ NetworkQsrRewardPerEpoch e = Ok q /\
  0 <= z <= emission_cap /\ 0 <= q <= emission_cap /\
  LiquidityRewardForEpoch e = Ok (z * LiquidityZnnRewardPercentage / 100, q * LiquidityQsrRewardPercentage / 100).
Proof.
  intros He. destruct (znn_per_epoch_ok e He) as [z [Hz Hr]]. destruct (qsr_per_epoch_ok e He) as [q [Hq Hs]].
  exists z, q. repeat split; try assumption; try lia.
  pose proof znn_percentages. pose proof qsr_percentages.
  unfold LiquidityRewardForEpoch. rewrite Hz, Hq. cbn [bind]. rewrite !pct_exact by lia. reflexivity.
Qed.
Lemma stake_per_epoch_ok e : 0 <= e < two64 ->
  exists q, NetworkQsrRewardPerEpoch e = Ok q /\ 0 <= q <= emission_cap /\
  StakeQsrRewardPerEpoch e = Ok (q * StakingQsrRewardPercentage / 100).
Proof.
  intros He. destruct (qsr_per_epoch_ok e He) as [q [Hq Hs]].
  exists q. repeat split; try assumption; try lia.
  pose proof qsr_percentages.
  unfold StakeQsrRewardPerEpoch. rewrite Hq. cbn [bind]. rewrite !pct_exact by lia. reflexivity.
Qed.

(* no reward function panics on any uint64 epoch *)
Lemma emission_no_panic e : 0 <= e < two64 ->
  NetworkZnnRewardPerEpoch e <> Panic /\ NetworkQsrRewardPerEpoch e <> Panic /\
  PillarRewardPerMomentum e <> Panic /\ SentinelRewardForEpoch e <> Panic /\
  LiquidityRewardForEpoch e <> Panic /\ StakeQsrRewardPerEpoch e <> Panic.
Proof.
  intros He.
  destruct (pillar_per_momentum_ok e He) as [z [Hz [_ Hp]]].
  destruct (sentinel_for_epoch_ok e He) as [z' [q [_ [Hq [_ [_ Hs]]]]]].
  destruct (liquidity_for_epoch_ok e He) as [z'' [q' [_ [_ [_ [_ Hl]]]]]].
  destruct (stake_per_epoch_ok e He) as [q'' [_ [_ Hst]]].
  rewrite Hz, Hq, Hp, Hs, Hl, Hst. repeat split; discriminate.
Qed.

Lemma mul_sum3_le q a b c : 0 <= q -> a + b + c <= 100 -> q * a + q * b + q * c <= q * 100.
Proof. intros. nia. Qed.
Lemma shares3_le q a b c : 0 <= q -> 0 <= a -> 0 <= b -> 0 <= c -> a + b + c <= 100 ->
  q * a / 100 + q * b / 100 + q * c / 100 <= q.
Proof.
  intros Hq Ha Hb Hc Hs. pose proof (mul_sum3_le q a b c Hq Hs) as A.
  pose proof (Z.mul_nonneg_nonneg q a Hq Ha). pose proof (Z.mul_nonneg_nonneg q b Hq Hb).
  pose proof (Z.mul_nonneg_nonneg q c Hq Hc).
  remember (q * a) as a1. remember (q * b) as a2. remember (q * c) as a3. clear - A H H0 H1. lia.
Qed.

(* the shares of one epoch add up to at most the epoch's emission *)
Lemma shares_le z p1 p2 p3 p4 m :
  0 <= z -> 0 <= p1 -> 0 <= p2 -> 0 <= p3 -> 0 <= p4 -> p1 + p2 + p3 + p4 <= 100 -> 0 < m ->
  (z * p1 / 100 / m + z * p2 / 100 / m) * m + z * p3 / 100 + z * p4 / 100 <= z.
Proof.
  intros Hz H1 H2 H3 H4 Hs Hm.
  assert (A : z * p1 + z * p2 + z * p3 + z * p4 <= z * 100) by nia.
  assert (0 <= z * p1) by nia. assert (0 <= z * p2) by nia. assert (0 <= z * p3) by nia. assert (0 <= z * p4) by nia.
  remember (z * p1) as a1. remember (z * p2) as a2. remember (z * p3) as a3. remember (z * p4) as a4.
  assert (B1 : a1 / 100 / m * m <= a1 / 100) by (rewrite Z.mul_comm; apply Z.mul_div_le; lia).
  assert (B2 : a2 / 100 / m * m <= a2 / 100) by (rewrite Z.mul_comm; apply Z.mul_div_le; lia).
  rewrite Z.mul_add_distr_r. lia.
Qed.

Lemma emission_split e : 0 <= e < two64 ->
  exists z q d b sz sq lz lq st,
    NetworkZnnRewardPerEpoch e = Ok z /\ NetworkQsrRewardPerEpoch e = Ok q /\
    PillarRewardPerMomentum e = Ok (d, b) /\ SentinelRewardForEpoch e = Ok (sz, sq) /\
    LiquidityRewardForEpoch e = Ok (lz, lq) /\ StakeQsrRewardPerEpoch e = Ok st /\
    0 <= d /\ 0 <= b /\ 0 <= sz /\ 0 <= sq /\ 0 <= lz /\ 0 <= lq /\ 0 <= st /\
    (d + b) * MomentumsPerEpoch + sz + lz <= z /\
    st + sq + lq <= q.
Proof.
  intros He.
  destruct (pillar_per_momentum_ok e He) as [z [Hz [Hzr Hp]]].
  destruct (sentinel_for_epoch_ok e He) as [z' [q [Hz' [Hq [_ [Hqr Hs]]]]]].
  destruct (liquidity_for_epoch_ok e He) as [z'' [q' [Hz'' [Hq' [_ [_ Hl]]]]]].
  destruct (stake_per_epoch_ok e He) as [q'' [Hq'' [_ Hst]]].
  assert (z' = z) by congruence. assert (z'' = z) by congruence.
  assert (q' = q) by congruence. assert (q'' = q) by congruence. subst.
  pose proof znn_percentages as Pz. pose proof qsr_percentages as Pq. pose proof mpe_ok as Hm.
  eexists z, q, _, _, _, _, _, _, _.
  split; [exact Hz|]. split; [exact Hq|]. split; [exact Hp|]. split; [exact Hs|]. split; [exact Hl|]. split; [exact Hst|].
  assert (N : forall a p, 0 <= a -> 0 <= p -> 0 <= a * p / 100).
  { clear. intros. apply Z.div_pos; [apply Z.mul_nonneg_nonneg; assumption|lia]. }
  assert (N' : forall a, 0 <= a -> 0 <= a / MomentumsPerEpoch).
  { clear - Hm. intros. apply Z.div_pos; lia. }
  repeat split; try (apply N; lia); try (apply N'; apply N; lia).
  - apply shares_le; lia.
  - apply shares3_le; lia.
Qed.

(* ------------------------------------------------------------------ sums and the pro-rata split *)

Lemma zsum_app a b : zsum (a ++ b) = zsum a + zsum b.
Proof. induction a as [|x a IH]; cbn [zsum app fold_right] in *; [reflexivity|]. fold (zsum (a ++ b)). fold (zsum a). lia. Qed.
Lemma zsum_cons x l : zsum (x :: l) = x + zsum l.
Proof. reflexivity. Qed.
Lemma zsum_nonneg l : Forall (fun x => 0 <= x) l -> 0 <= zsum l.
Proof. induction 1 as [|x l Hx _ IH]; [cbn; lia|]. rewrite zsum_cons. lia. Qed.
Lemma zsum_map_le {A} (f g : A -> Z) l : (forall x, In x l -> f x <= g x) -> zsum (map f l) <= zsum (map g l).
Proof.
  induction l as [|x l IH]; intros H; [cbn; lia|]. cbn [map]. rewrite !zsum_cons.
  specialize (H x (or_introl eq_refl)) as Hx. assert (zsum (map f l) <= zsum (map g l)) by (apply IH; intros; apply H; right; assumption). lia.
Qed.

Lemma div_add_ge a b W : 0 < W -> a / W + b / W <= (a + b) / W.
Proof.
  intros HW. apply Z.div_le_lower_bound; [lia|].
  pose proof (Z.mul_div_le a W HW). pose proof (Z.mul_div_le b W HW). lia.
Qed.

Lemma sum_div_le (l : list Z) W : 0 < W -> zsum (map (fun a => a / W) l) <= zsum l / W.
Proof.
  intros HW. induction l as [|a l IH]; [cbn [map zsum fold_right]; apply Z.div_pos; lia|].
  cbn [map]. rewrite !zsum_cons. pose proof (div_add_ge a (zsum l) W HW). lia.
Qed.

Lemma zsum_map_mul t l : zsum (map (fun w => t * w) l) = t * zsum l.
Proof. induction l as [|a l IH]; [cbn; lia|]. cbn [map]. rewrite !zsum_cons, IH. lia. Qed.

(* sum_i floor(total * w_i / W) <= floor(total * sum_i w_i / W) *)
Lemma prorata_le total (ws : list Z) W : 0 < W ->
  zsum (map (fun w => (total * w) / W) ws) <= (total * zsum ws) / W.
Proof.
  intros HW.
  replace (map (fun w => total * w / W) ws) with (map (fun a => a / W) (map (fun w => total * w) ws))
    by (rewrite map_map; reflexivity).
  rewrite <- zsum_map_mul. apply sum_div_le. exact HW.
Qed.

Lemma quot_nonneg_div a b : 0 <= a -> 0 < b -> Z.quot a b = a / b.
Proof. intros. apply Z.quot_div_nonneg; lia. Qed.

(* the general statement: a pro-rata split with non-negative weights never hands out more than the total *)
Lemma split_bounded total ws :
  0 <= total -> Forall (fun w => 0 <= w) ws -> 0 < zsum ws -> zsum (split total ws) <= total.
Proof.
  intros Ht Hw HW. unfold split.
  assert (E : zsum (map (fun w => Z.quot (total * w) (zsum ws)) ws) = zsum (map (fun w => (total * w) / zsum ws) ws)).
  { f_equal. apply map_ext_in. intros w Hin. rewrite Forall_forall in Hw. specialize (Hw w Hin).
    apply quot_nonneg_div; nia. }
  rewrite E. pose proof (prorata_le total ws (zsum ws) HW) as H.
  rewrite Z.div_mul in H by lia. exact H.
Qed.
Lemma split_nonneg total ws :
  0 <= total -> Forall (fun w => 0 <= w) ws -> 0 < zsum ws -> Forall (fun x => 0 <= x) (split total ws).
Proof.
  intros Ht Hw HW. unfold split. apply Forall_forall. intros x Hin. apply in_map_iff in Hin.
  destruct Hin as [w [<- Hin]]. rewrite Forall_forall in Hw. specialize (Hw w Hin).
  rewrite quot_nonneg_div by nia. apply Z.div_pos; nia.
Qed.

(* ------------------------------------------------------------------ picking entries of a keyed list *)

Section Pick.
  Context {A : Type} (key : A -> Z) (f : A -> Z).
  Definition pick (items : list A) (k : Z) : Z :=
    match find (fun i => key i =? k) items with Some i => f i | None => 0 end.

  Lemma pick_nonneg items k : (forall i, In i items -> 0 <= f i) -> 0 <= pick items k.
  Proof.
    intros H. unfold pick. destruct (find (fun i => key i =? k) items) eqn:E; [|lia].
    apply find_some in E. apply H. tauto.
  Qed.

  Lemma zsum_if_notin c x (g : Z -> Z) ks : ~ In c ks ->
    zsum (map (fun k => if c =? k then x else g k) ks) = zsum (map g ks).
  Proof.
    intros Hn. f_equal. apply map_ext_in. intros k Hk. destruct (c =? k) eqn:E; [|reflexivity].
    exfalso. apply Hn. assert (c = k) by lia. subst. exact Hk.
  Qed.

  Lemma zsum_if_le c x (g : Z -> Z) ks : NoDup ks -> 0 <= x -> (forall k, 0 <= g k) ->
    zsum (map (fun k => if c =? k then x else g k) ks) <= x + zsum (map g ks).
  Proof.
    intros Hnd Hx Hg. induction Hnd as [|k ks Hnin Hnd IH]; [cbn; lia|].
    cbn [map]. rewrite !zsum_cons. destruct (c =? k) eqn:E.
    - assert (c = k) by lia. subst. rewrite zsum_if_notin by exact Hnin. specialize (Hg k). lia.
    - lia.
  Qed.

  Lemma pick_sum_le items : forall ks, NoDup ks -> (forall i, In i items -> 0 <= f i) ->
    zsum (map (pick items) ks) <= zsum (map f items).
  Proof.
    induction items as [|a items IH]; intros ks Hnd Hf.
    - unfold pick. cbn [find map]. clear. induction ks as [|k ks IH]; [cbn; lia|]. cbn [map]. rewrite zsum_cons. cbn [map zsum fold_right] in *. lia.
    - cbn [map]. rewrite zsum_cons.
      assert (E : map (pick (a :: items)) ks = map (fun k => if key a =? k then f a else pick items k) ks).
      { apply map_ext. intros k. unfold pick. cbn [find]. destruct (key a =? k); reflexivity. }
      rewrite E.
      assert (Hf' : forall i, In i items -> 0 <= f i) by (intros; apply Hf; right; assumption).
      pose proof (zsum_if_le (key a) (f a) (pick items) ks Hnd (Hf a (or_introl eq_refl)) (fun k => pick_nonneg items k Hf')).
      specialize (IH ks Hnd Hf'). lia.
  Qed.
End Pick.

(* ------------------------------------------------------------------ pillars *)

Definition stats_wf (st : estats) : Prop :=
  NoDup (map ps_name (es_pillars st)) /\
  Forall (fun p => 0 <= ps_produced p <= ps_expected p /\ 0 <= ps_weight p) (es_pillars st) /\
  zsum (map ps_weight (es_pillars st)) <= es_total_weight st /\
  zsum (map ps_expected (es_pillars st)) < two64.
Definition infos_wf (infos : list pinfo) : Prop :=
  NoDup (map pi_name infos) /\ Forall (fun i => 0 <= pi_give_block i /\ 0 <= pi_give_deleg i) infos.
Definition details_wf (ds : list pdetail) : Prop :=
  NoDup (map pd_name ds) /\ Forall (fun d => Forall (fun ba => 0 <= snd ba) (pd_backers d)) ds.

(* the reward of one pillar once the per-momentum amounts (d, b) are known *)
Definition rw (st : estats) (d b : Z) (p : pstat) : preward :=
  if ps_expected p =? 0 then mkPreward 0 0 0 else
  let deleg := if Z.sgn (es_total_weight st) =? 0 then 0
               else Z.quot (Z.quot (d * ps_produced p * ps_weight p * total_expected st) (ps_expected p))
                           (es_total_weight st) in
  mkPreward deleg (b * ps_produced p) (b * ps_produced p + deleg).

Lemma pillar_reward_rw st d b p :
  PillarRewardPerMomentum (es_epoch st) = Ok (d, b) -> pillar_reward st p = Ok (rw st d b p).
Proof.
  intros H. unfold pillar_reward, rw. destruct (ps_expected p =? 0); [reflexivity|].
  rewrite H. cbn [bind fst snd]. reflexivity.
Qed.
Lemma pillar_rewards_of_rw st d b ps :
  PillarRewardPerMomentum (es_epoch st) = Ok (d, b) ->
  pillar_rewards_of st ps = Ok (map (fun p => (ps_name p, rw st d b p)) ps).
Proof.
  intros H. induction ps as [|p ps IH]; [reflexivity|].
  cbn [pillar_rewards_of map]. rewrite (pillar_reward_rw st d b p H). cbn [bind]. rewrite IH. reflexivity.
Qed.

Lemma expected_sum_nonneg ps :
  Forall (fun p => 0 <= ps_produced p <= ps_expected p /\ 0 <= ps_weight p) ps ->
  0 <= zsum (map ps_expected ps) /\ 0 <= zsum (map ps_weight ps) /\
  zsum (map ps_produced ps) <= zsum (map ps_expected ps).
Proof.
  induction 1 as [|p ps Hp _ IH]; [cbn; lia|]. cbn [map]. rewrite !zsum_cons. lia.
Qed.

Lemma total_expected_eq st : stats_wf st ->
  total_expected st = zsum (map ps_expected (es_pillars st)) /\ 0 <= total_expected st.
Proof.
  intros [_ [Hf [_ Hlt]]]. destruct (expected_sum_nonneg _ Hf) as [H0 _].
  unfold total_expected, u64. rewrite Z.mod_small by lia. lia.
Qed.

(* bounds on one pillar's reward *)
Lemma rw_bounds st d b p : 0 <= d -> 0 <= b -> 0 <= total_expected st ->
  0 <= ps_produced p <= ps_expected p -> 0 <= ps_weight p -> 0 <= es_total_weight st ->
  0 <= pr_deleg (rw st d b p) /\ 0 <= pr_block (rw st d b p) /\
  pr_total (rw st d b p) = pr_block (rw st d b p) + pr_deleg (rw st d b p) /\
  pr_block (rw st d b p) = b * ps_produced p /\
  (0 < es_total_weight st -> pr_deleg (rw st d b p) <= (d * total_expected st * ps_weight p) / es_total_weight st) /\
  (es_total_weight st = 0 -> pr_deleg (rw st d b p) = 0).
Proof.
  intros Hd Hb HT Hp Hw HTW. unfold rw. set (T := total_expected st) in *.
  destruct (ps_expected p =? 0) eqn:E0.
  - assert (ps_produced p = 0) by lia. cbn [pr_deleg pr_block pr_total].
    repeat split; try lia. intros HTW'. apply Z.div_pos; nia.
  - cbn [pr_deleg pr_block pr_total].
    destruct (Z.sgn (es_total_weight st) =? 0) eqn:E1.
    + assert (es_total_weight st = 0) by lia. repeat split; try lia; nia.
    + assert (HTWp : 0 < es_total_weight st) by lia.
      assert (HE : 0 < ps_expected p) by lia.
      assert (Hn : 0 <= d * ps_produced p * ps_weight p * T) by (repeat apply Z.mul_nonneg_nonneg; lia).
      rewrite (quot_nonneg_div _ (ps_expected p)) by lia.
      assert (Hq0 : 0 <= d * ps_produced p * ps_weight p * T / ps_expected p) by (apply Z.div_pos; lia).
      rewrite quot_nonneg_div by lia.
      assert (Hq1 : d * ps_produced p * ps_weight p * T / ps_expected p <= d * T * ps_weight p).
      { apply Z.div_le_upper_bound; [lia|].
        assert (0 <= d * T * ps_weight p) by (repeat apply Z.mul_nonneg_nonneg; lia).
        replace (d * ps_produced p * ps_weight p * T) with ((d * T * ps_weight p) * ps_produced p) by ring.
        remember (d * T * ps_weight p) as X. nia. }
      split; [apply Z.div_pos; lia|]. split; [nia|]. split; [reflexivity|]. split; [reflexivity|].
      split; [intros _; apply Z.div_le_mono; lia | intros; lia].
Qed.

(* sum over all pillars of the epoch *)
Lemma rw_sum_le st d b : stats_wf st -> 0 <= d -> 0 <= b ->
  zsum (map (fun p => pr_total (rw st d b p)) (es_pillars st)) <= (d + b) * total_expected st.
Proof.
  intros Hwf Hd Hb. destruct (total_expected_eq st Hwf) as [HTe HT0].
  destruct Hwf as [_ [Hf [HW Hlt]]].
  destruct (expected_sum_nonneg _ Hf) as [He0 [Hw0 Hpe]].
  assert (HTW : 0 <= es_total_weight st) by lia.
  set (T := total_expected st) in *.
  (* block part and delegation part separately *)
  assert (HB : zsum (map (fun p => pr_block (rw st d b p)) (es_pillars st)) <= b * T).
  { rewrite HTe. clear HTe Hlt HW He0 Hw0 Hpe.
    induction Hf as [|p ps Hp Hf IH]; [cbn; lia|]. cbn [map]. rewrite !zsum_cons.
    destruct (rw_bounds st d b p Hd Hb HT0 (proj1 Hp) (proj2 Hp) HTW) as [_ [_ [_ [Hbl _]]]].
    fold T in Hbl. rewrite Hbl. nia. }
  assert (HD : zsum (map (fun p => pr_deleg (rw st d b p)) (es_pillars st)) <= d * T).
  { destruct (Z.eq_dec (es_total_weight st) 0) as [Hz|Hnz].
    - assert (zsum (map (fun p => pr_deleg (rw st d b p)) (es_pillars st)) = 0); [|nia].
      clear HB HTe Hlt HW He0 Hw0 Hpe. induction Hf as [|p ps Hp Hf IH]; [reflexivity|]. cbn [map]. rewrite zsum_cons.
      destruct (rw_bounds st d b p Hd Hb HT0 (proj1 Hp) (proj2 Hp) HTW) as [_ [_ [_ [_ [_ Hz0]]]]].
      rewrite (Hz0 Hz), IH. reflexivity.
    - assert (HTWp : 0 < es_total_weight st) by lia.
      assert (H1 : zsum (map (fun p => pr_deleg (rw st d b p)) (es_pillars st)) <=
                   zsum (map (fun w => (d * T * w) / es_total_weight st) (map ps_weight (es_pillars st)))).
      { rewrite map_map. apply zsum_map_le. intros p Hin. rewrite Forall_forall in Hf. specialize (Hf p Hin).
        destruct (rw_bounds st d b p Hd Hb HT0 (proj1 Hf) (proj2 Hf) HTW) as [_ [_ [_ [_ [Hdl _]]]]].
        apply Hdl. exact HTWp. }
      pose proof (prorata_le (d * T) (map ps_weight (es_pillars st)) (es_total_weight st) HTWp) as H2.
      assert (H3 : d * T * zsum (map ps_weight (es_pillars st)) / es_total_weight st <= d * T).
      { apply Z.div_le_upper_bound; [lia|]. assert (0 <= d * T) by nia. nia. }
      lia. }
  assert (HS : zsum (map (fun p => pr_total (rw st d b p)) (es_pillars st)) =
               zsum (map (fun p => pr_block (rw st d b p)) (es_pillars st)) +
               zsum (map (fun p => pr_deleg (rw st d b p)) (es_pillars st))).
  { clear HB HD HTe Hlt HW He0 Hw0 Hpe. induction Hf as [|p ps Hp Hf IH]; [reflexivity|]. cbn [map]. rewrite !zsum_cons.
    destruct (rw_bounds st d b p Hd Hb HT0 (proj1 Hp) (proj2 Hp) HTW) as [_ [_ [Ht _]]]. lia. }
  lia.
Qed.

(* the amount handed to backers of one pillar *)
Definition tgv (rs : list (Z * preward)) (i : pinfo) : Z :=
  match lookup (pi_name i) rs with Some r => to_give i r | None => 0 end.
Definition totv (rs : list (Z * preward)) (i : pinfo) : Z :=
  match lookup (pi_name i) rs with Some r => pr_total r | None => 0 end.

Lemma credits_a_sum rs infos :
  zsum (map snd (credits_a rs infos)) = zsum (map (fun i => totv rs i - tgv rs i) infos).
Proof.
  unfold credits_a, totv, tgv. induction infos as [|i infos IH]; [reflexivity|].
  cbn [flat_map map]. rewrite map_app, zsum_app, zsum_cons, IH.
  destruct (lookup (pi_name i) rs); cbn; lia.
Qed.

Lemma lookup_app_nil {A} k (l : list (Z * A)) : lookup k ([] ++ l) = lookup k l.
Proof. reflexivity. Qed.

Lemma pick_none_zero rs infos k : lookup k rs = None -> pick pi_name (tgv rs) infos k = 0.
Proof.
  intros Hn. unfold pick. destruct (find (fun i => pi_name i =? k) infos) eqn:E; [|reflexivity].
  apply find_some in E. destruct E as [_ E]. assert (pi_name p = k) by lia. unfold tgv. rewrite H, Hn. reflexivity.
Qed.

Lemma lookup_togive rs infos k tb :
  lookup k (togive_map rs infos) = Some tb -> tb = pick pi_name (tgv rs) infos k.
Proof.
  induction infos as [|i infos IH]; [discriminate|].
  unfold togive_map. cbn [flat_map]. fold (togive_map rs infos).
  unfold pick. cbn [find]. destruct (pi_name i =? k) eqn:E.
  - assert (Hk : pi_name i = k) by lia.
    destruct (lookup (pi_name i) rs) eqn:L.
    + unfold lookup at 1. cbn [app find fst]. rewrite E. cbn [snd]. intros H. inversion H. unfold tgv. rewrite L. reflexivity.
    + cbn [app]. intros H. specialize (IH H). rewrite Hk in L. rewrite (pick_none_zero rs infos k L) in IH.
      unfold tgv. rewrite Hk, L. exact IH.
  - destruct (lookup (pi_name i) rs) eqn:L.
    + unfold lookup at 1. cbn [app find fst]. rewrite E. intros H. apply IH. exact H.
    + cbn [app]. intros H. apply IH. exact H.
Qed.

Lemma quot_share_sum_le tb (bs : list (Z * Z)) :
  0 <= tb -> Forall (fun ba => 0 <= snd ba) bs -> zsum (map snd bs) <> 0 ->
  zsum (map snd (map (fun ba => (fst ba, Z.quot (tb * snd ba) (zsum (map snd bs)))) bs)) <= tb.
Proof.
  intros Ht Hb Hnz.
  assert (Hws : Forall (fun w => 0 <= w) (map snd bs)).
  { apply Forall_forall. intros w Hin. apply in_map_iff in Hin. destruct Hin as [ba [<- Hin]].
    rewrite Forall_forall in Hb. apply Hb. exact Hin. }
  pose proof (zsum_nonneg _ Hws).
  pose proof (split_bounded tb (map snd bs) Ht Hws ltac:(lia)) as H1.
  unfold split in H1. rewrite !map_map in *. cbn [snd]. exact H1.
Qed.

Lemma credits_detail_le rs infos d cs :
  (forall i, In i infos -> 0 <= tgv rs i) -> Forall (fun ba => 0 <= snd ba) (pd_backers d) ->
  credits_detail (togive_map rs infos) infos d = Some cs ->
  zsum (map snd cs) <= pick pi_name (tgv rs) infos (pd_name d).
Proof.
  intros Hnn Hb. unfold credits_detail.
  destruct (lookup (pd_name d) (togive_map rs infos)) as [tb|] eqn:L; [|discriminate].
  apply lookup_togive in L.
  assert (Htb : 0 <= tb) by (rewrite L; apply pick_nonneg; exact Hnn).
  destruct (zsum (map snd (pd_backers d)) =? 0) eqn:E0.
  - destruct (find (fun i => pi_name i =? pd_name d) infos); intros H; inversion H; cbn; lia.
  - intros H. inversion H. subst cs. rewrite <- L. apply quot_share_sum_le; [lia|exact Hb|lia].
Qed.

Lemma credits_b_le rs infos ds cb :
  (forall i, In i infos -> 0 <= tgv rs i) ->
  Forall (fun d => Forall (fun ba => 0 <= snd ba) (pd_backers d)) ds ->
  credits_b (togive_map rs infos) infos ds = Some cb ->
  zsum (map snd cb) <= zsum (map (pick pi_name (tgv rs) infos) (map pd_name ds)).
Proof.
  intros Hnn Hb. revert cb. induction Hb as [|d ds Hd Hds IH]; intros cb.
  - cbn. intros H. inversion H. cbn. lia.
  - cbn [credits_b map]. destruct (credits_detail (togive_map rs infos) infos d) as [a|] eqn:E1; [|discriminate].
    destruct (credits_b (togive_map rs infos) infos ds) as [b|] eqn:E2; [|discriminate].
    intros H. inversion H. subst cb. rewrite map_app, zsum_app, zsum_cons.
    pose proof (credits_detail_le rs infos d a Hnn Hd E1). specialize (IH b eq_refl). lia.
Qed.

Lemma to_give_nonneg i r : 0 <= pi_give_block i -> 0 <= pi_give_deleg i -> 0 <= pr_block r -> 0 <= pr_deleg r ->
  0 <= to_give i r.
Proof.
  intros. unfold to_give. rewrite big100_ok. rewrite quot_nonneg_div by nia. apply Z.div_pos; nia.
Qed.

Lemma lookup_rs_in st d b ps k r :
  lookup k (map (fun p => (ps_name p, rw st d b p)) ps) = Some r -> exists p, In p ps /\ r = rw st d b p.
Proof.
  unfold lookup. destruct (find _ _) as [kv|] eqn:E; [|discriminate].
  apply find_some in E. destruct E as [Hin _]. apply in_map_iff in Hin. destruct Hin as [p [<- Hp]].
  intros H. inversion H. exists p. split; [exact Hp|reflexivity].
Qed.

Lemma totv_is_pick rs i : totv rs i = pick fst (fun kv => pr_total (snd kv)) rs (pi_name i).
Proof. unfold totv, lookup, pick. destruct (find _ rs); reflexivity. Qed.

Theorem pillar_bounded st infos ds d b cs :
  stats_wf st -> infos_wf infos -> details_wf ds ->
  PillarRewardPerMomentum (es_epoch st) = Ok (d, b) -> 0 <= d -> 0 <= b ->
  detailed_pillar_reward st infos ds = Done cs ->
  zsum (map snd cs) <= (d + b) * total_expected st.
Proof.
  intros Hst [Hind Hif] [Hdnd Hdf] Hp Hd Hb.
  unfold detailed_pillar_reward, pillar_rewards. rewrite (pillar_rewards_of_rw st d b _ Hp).
  set (rs := map (fun p => (ps_name p, rw st d b p)) (es_pillars st)).
  destruct (negb _); [discriminate|].
  destruct (credits_b (togive_map rs infos) infos ds) as [cb|] eqn:Ecb; [|discriminate].
  intros H. inversion H. subst cs. clear H.
  destruct (total_expected_eq st Hst) as [_ HT0].
  assert (HTW : 0 <= es_total_weight st).
  { destruct Hst as [_ [Hf [HW _]]]. destruct (expected_sum_nonneg _ Hf) as [_ [Hw0 _]]. lia. }
  (* every reward in rs is well-behaved *)
  assert (Hrs : forall k r, lookup k rs = Some r -> 0 <= pr_deleg r /\ 0 <= pr_block r /\ 0 <= pr_total r).
  { intros k r L. apply lookup_rs_in in L. destruct L as [p [Hin ->]].
    destruct Hst as [_ [Hf _]]. rewrite Forall_forall in Hf. specialize (Hf p Hin).
    destruct (rw_bounds st d b p Hd Hb HT0 (proj1 Hf) (proj2 Hf) HTW) as [A [B [C _]]]. lia. }
  assert (Hnn : forall i, In i infos -> 0 <= tgv rs i).
  { intros i Hin. unfold tgv. destruct (lookup (pi_name i) rs) eqn:L; [|lia].
    rewrite Forall_forall in Hif. specialize (Hif i Hin). destruct (Hrs _ _ L) as [A [B _]].
    apply to_give_nonneg; lia. }
  rewrite map_app, zsum_app, credits_a_sum.
  pose proof (credits_b_le rs infos ds cb Hnn Hdf Ecb) as HB.
  pose proof (pick_sum_le pi_name (tgv rs) infos (map pd_name ds) Hdnd Hnn) as HB2.
  assert (HA : zsum (map (fun i => totv rs i - tgv rs i) infos) = zsum (map (totv rs) infos) - zsum (map (tgv rs) infos)).
  { clear. induction infos as [|i infos IH]; [reflexivity|]. cbn [map]. rewrite !zsum_cons. lia. }
  assert (HT : zsum (map (totv rs) infos) <= zsum (map (fun kv => pr_total (snd kv)) rs)).
  { replace (map (totv rs) infos) with (map (pick fst (fun kv => pr_total (snd kv)) rs) (map pi_name infos)).
    - apply pick_sum_le; [exact Hind|]. intros kv Hin. unfold rs in Hin. apply in_map_iff in Hin.
      destruct Hin as [p [<- Hin]]. cbn [snd].
      destruct Hst as [_ [Hf _]]. rewrite Forall_forall in Hf. specialize (Hf p Hin).
      destruct (rw_bounds st d b p Hd Hb HT0 (proj1 Hf) (proj2 Hf) HTW) as [A [B [C _]]]. lia.
    - rewrite map_map. apply map_ext. intros i. symmetry. apply totv_is_pick. }
  assert (HR : zsum (map (fun kv => pr_total (snd kv)) rs) = zsum (map (fun p => pr_total (rw st d b p)) (es_pillars st))).
  { unfold rs. rewrite map_map. reflexivity. }
  pose proof (rw_sum_le st d b Hst Hd Hb). lia.
Qed.

(* with one momentum slot per MomentumsPerEpoch the pillar contract stays inside its share of the emission *)
Corollary pillar_bounded_24h st infos ds cs z :
  stats_wf st -> infos_wf infos -> details_wf ds -> 0 <= es_epoch st < two64 ->
  total_expected st <= MomentumsPerEpoch ->
  NetworkZnnRewardPerEpoch (es_epoch st) = Ok z ->
  detailed_pillar_reward st infos ds = Done cs ->
  zsum (map snd cs) <= z * (DelegationZnnRewardPercentage + MomentumProducingZnnRewardPercentage) / 100.
Proof.
  intros Hst Hi Hd He HT Hz H.
  destruct (pillar_per_momentum_ok _ He) as [z' [Hz' [Hzr Hp]]]. assert (z' = z) by congruence. subst z'.
  pose proof znn_percentages as Pz. pose proof mpe_ok as Hm.
  assert (N : forall p, 0 <= p -> 0 <= z * p / 100 / MomentumsPerEpoch).
  { intros. apply Z.div_pos; [|lia]. apply Z.div_pos; nia. }
  destruct (total_expected_eq st Hst) as [_ HT0].
  set (d := z * DelegationZnnRewardPercentage / 100 / MomentumsPerEpoch) in *.
  set (b := z * MomentumProducingZnnRewardPercentage / 100 / MomentumsPerEpoch) in *.
  assert (Hd0 : 0 <= d) by (apply N; lia). assert (Hb0 : 0 <= b) by (apply N; lia).
  pose proof (pillar_bounded st infos ds d b cs Hst Hi Hd Hp Hd0 Hb0 H) as HB.
  assert (H1 : (d + b) * total_expected st <= (d + b) * MomentumsPerEpoch) by (apply Z.mul_le_mono_nonneg_l; lia).
  assert (H2 : d * MomentumsPerEpoch <= z * DelegationZnnRewardPercentage / 100).
  { unfold d. rewrite Z.mul_comm. apply Z.mul_div_le. lia. }
  assert (H3 : b * MomentumsPerEpoch <= z * MomentumProducingZnnRewardPercentage / 100).
  { unfold b. rewrite Z.mul_comm. apply Z.mul_div_le. lia. }
  assert (H4 : z * DelegationZnnRewardPercentage / 100 + z * MomentumProducingZnnRewardPercentage / 100
               <= z * (DelegationZnnRewardPercentage + MomentumProducingZnnRewardPercentage) / 100).
  { rewrite Z.mul_add_distr_l. apply div_add_ge. lia. }
  rewrite Z.mul_add_distr_r in H1. clear - HB H1 H2 H3 H4. lia.
Qed.

(* ------------------------------------------------------------------ stake and sentinel *)

Definition two62 : Z := 4611686018427387904.
Definition time_ok (t : Z) : Prop := 0 <= t < two62.

Ltac split_ifs :=
  repeat match goal with
         | |- context [if ?c then _ else _] => let E := fresh "E" in destruct c eqn:E
         end.

Lemma stake_w_nonneg s e x :
  time_ok s -> time_ok e -> time_ok (se_start x) -> time_ok (se_revoke x) -> 0 <= se_wamount x ->
  0 <= stake_w s e x.
Proof.
  unfold time_ok, two62. intros Hs He H1 H2 Hw.
  unfold stake_w, getWeightedStake, MaxInt64, MinInt64. cbv zeta.
  split_ifs; try lia; rewrite wrapS64_small by (unfold two63; lia); nia.
Qed.

Lemma big01 : Big0 = 0 /\ Big1 = 1.
Proof. split; vm_compute; reflexivity. Qed.

Lemma sentinel_w_nonneg s e x : 0 <= sentinel_w s e x.
Proof.
  destruct big01 as [B0 B1].
  unfold sentinel_w, getWeightedSentinel, MaxInt64, MinInt64. cbv zeta.
  split_ifs; rewrite ?B0, ?B1; lia.
Qed.

Definition sentry_ok (x : sentry) : Prop := time_ok (se_start x) /\ time_ok (se_revoke x) /\ 0 <= se_wamount x.

Theorem stake_bounded epoch s e l cs rem :
  0 <= epoch < two64 -> time_ok s -> time_ok e -> Forall sentry_ok l ->
  stake_rewards epoch s e l = Ok (cs, rem) ->
  exists q total, NetworkQsrRewardPerEpoch epoch = Ok q /\ StakeQsrRewardPerEpoch epoch = Ok total /\
    total = q * StakingQsrRewardPercentage / 100 /\
    Forall (fun c => 0 <= snd c) cs /\ zsum (map snd cs) <= total /\ total <= q.
Proof.
  intros Hep Hs He Hl. destruct (stake_per_epoch_ok epoch Hep) as [q [Hq [Hqr Hst]]].
  unfold stake_rewards. rewrite Hst. cbn [bind].
  set (total := q * StakingQsrRewardPercentage / 100).
  pose proof qsr_percentages as Pq.
  assert (Ht0 : 0 <= total) by (apply Z.div_pos; [apply Z.mul_nonneg_nonneg; lia | lia]).
  assert (Htq : total <= q).
  { unfold total. apply Z.div_le_upper_bound; [lia|]. rewrite Z.mul_comm. apply Z.mul_le_mono_nonneg_r; lia. }
  assert (Hws : Forall (fun w => 0 <= w) (map (stake_w s e) l)).
  { apply Forall_forall. intros w Hin. apply in_map_iff in Hin. destruct Hin as [x [<- Hin]].
    rewrite Forall_forall in Hl. destruct (Hl x Hin) as [A [B C]]. apply stake_w_nonneg; assumption. }
  pose proof (zsum_nonneg _ Hws) as Hc0.
  destruct (Z.sgn (zsum (map (stake_w s e) l)) =? 0) eqn:E0; intros H; inversion H; subst cs rem; clear H;
    exists q, total; repeat (split; [first [exact Hq | reflexivity]|]).
  - split; [constructor|]. cbn. lia.
  - assert (Hpos : 0 < zsum (map (stake_w s e) l)) by lia.
    assert (Esp : map snd (map (fun x => (se_addr x, Z.quot (total * stake_w s e x) (zsum (map (stake_w s e) l)))) l)
                  = split total (map (stake_w s e) l)).
    { unfold split. rewrite !map_map. reflexivity. }
    split; [|split; [|exact Htq]].
    + apply Forall_forall. intros c Hin.
      assert (Hin' : In (snd c) (split total (map (stake_w s e) l))) by (rewrite <- Esp; apply in_map; exact Hin).
      pose proof (split_nonneg total _ Ht0 Hws Hpos) as Hn. rewrite Forall_forall in Hn. apply Hn. exact Hin'.
    + rewrite Esp. apply split_bounded; assumption.
Qed.

Lemma sentinel_sum_eq (t cum : Z) (w : sent -> Z) (pr : Z * Z -> Z) (tt : Z) l :
  (forall z q, pr (z, q) = z \/ pr (z, q) = q) ->
  forall (f : sent -> Z * Z),
  (forall x, pr (f x) = Z.quot (tt * w x) cum) ->
  zsum (map (fun c => pr (snd c)) (flat_map (fun x => if Z.sgn (w x) =? 0 then [] else [(sn_addr x, f x)]) l))
  = zsum (map (fun x => Z.quot (tt * w x) cum) l).
Proof.
  intros _ f Hf. induction l as [|x l IH]; [reflexivity|].
  cbn [flat_map map]. rewrite map_app, zsum_app, zsum_cons, IH.
  destruct (Z.sgn (w x) =? 0) eqn:E.
  - assert (w x = 0) by lia. rewrite H, Z.mul_0_r. replace (Z.quot 0 cum) with 0 by (destruct cum; reflexivity). cbn. lia.
  - cbn [map snd zsum fold_right]. rewrite Hf. lia.
Qed.

Theorem sentinel_bounded epoch s e l cs :
  0 <= epoch < two64 ->
  sentinel_rewards epoch s e l = Ok cs ->
  exists z q tz tq, NetworkZnnRewardPerEpoch epoch = Ok z /\ NetworkQsrRewardPerEpoch epoch = Ok q /\
    SentinelRewardForEpoch epoch = Ok (tz, tq) /\
    tz = z * SentinelZnnRewardPercentage / 100 /\ tq = q * SentinelQsrRewardPercentage / 100 /\
    zsum (map (fun c => fst (snd c)) cs) <= tz /\ zsum (map (fun c => snd (snd c)) cs) <= tq.
Proof.
  intros Hep. destruct (sentinel_for_epoch_ok epoch Hep) as [z [q [Hz [Hq [Hzr [Hqr Hs]]]]]].
  unfold sentinel_rewards. rewrite Hs. cbn [bind fst snd].
  set (tz := z * SentinelZnnRewardPercentage / 100). set (tq := q * SentinelQsrRewardPercentage / 100).
  pose proof znn_percentages as Pz. pose proof qsr_percentages as Pq.
  assert (Hz0 : 0 <= tz) by (apply Z.div_pos; [apply Z.mul_nonneg_nonneg; lia | lia]).
  assert (Hq0 : 0 <= tq) by (apply Z.div_pos; [apply Z.mul_nonneg_nonneg; lia | lia]).
  assert (Hws : Forall (fun w => 0 <= w) (map (sentinel_w s e) l)).
  { apply Forall_forall. intros w Hin. apply in_map_iff in Hin. destruct Hin as [x [<- _]]. apply sentinel_w_nonneg. }
  pose proof (zsum_nonneg _ Hws) as Hc0.
  destruct (Z.sgn (zsum (map (sentinel_w s e) l)) =? 0) eqn:E0; intros H; inversion H; subst cs; clear H;
    exists z, q, tz, tq; repeat (split; [first [exact Hz | exact Hq | reflexivity]|]).
  - cbn. lia.
  - assert (Hpos : 0 < zsum (map (sentinel_w s e) l)) by lia.
    set (cum := zsum (map (sentinel_w s e) l)) in *.
    split.
    + rewrite (sentinel_sum_eq tz cum (sentinel_w s e) fst tz l (fun z q => or_introl eq_refl)
                 (fun x => (Z.quot (tz * sentinel_w s e x) cum, Z.quot (tq * sentinel_w s e x) cum))) by (intros; reflexivity).
      pose proof (split_bounded tz (map (sentinel_w s e) l) Hz0 Hws Hpos) as HB.
      unfold split in HB. rewrite map_map in HB. exact HB.
    + rewrite (sentinel_sum_eq tq cum (sentinel_w s e) snd tq l (fun z q => or_intror eq_refl)
                 (fun x => (Z.quot (tz * sentinel_w s e x) cum, Z.quot (tq * sentinel_w s e x) cum))) by (intros; reflexivity).
      pose proof (split_bounded tq (map (sentinel_w s e) l) Hq0 Hws Hpos) as HB.
      unfold split in HB. rewrite map_map in HB. exact HB.
Qed.

(* liquidity (before the bridge-and-liquidity spork): the contract mints itself exactly LiquidityRewardForEpoch *)
Lemma liquidity_share e : 0 <= e < two64 ->
  exists z q lz lq, NetworkZnnRewardPerEpoch e = Ok z /\ NetworkQsrRewardPerEpoch e = Ok q /\
    LiquidityRewardForEpoch e = Ok (lz, lq) /\ 0 <= lz <= z /\ 0 <= lq <= q.
Proof.
  intros He. destruct (emission_split e He) as [z [q [d [b [sz [sq [lz [lq [st H]]]]]]]]].
  destruct H as [Hz [Hq [Hp [Hs [Hl [Hst [H1 [H2 [H3 [H4 [H5 [H6 [H7 [H8 H9]]]]]]]]]]]]]].
  pose proof mpe_ok. exists z, q, lz, lq. repeat (split; [assumption|]).
  assert (0 <= (d + b) * MomentumsPerEpoch) by (apply Z.mul_nonneg_nonneg; lia).
  clear - H1 H2 H3 H4 H5 H6 H7 H8 H9 H0. lia.
Qed.

(* ------------------------------------------------------------------ epoch cursor *)

Fixpoint zrange (a : Z) (n : nat) : list Z := match n with O => [] | S k => a :: zrange (a + 1) k end.

Lemma zrange_length a n : length (zrange a n) = n.
Proof. revert a. induction n as [|n IH]; intros a; [reflexivity|]. cbn. rewrite IH. reflexivity. Qed.
Lemma zrange_in a n x : In x (zrange a n) <-> a <= x < a + Z.of_nat n.
Proof.
  revert a. induction n as [|n IH]; intros a.
  - cbn. lia.
  - cbn [zrange In]. rewrite IH. lia.
Qed.
Lemma zrange_app a n m : zrange a (n + m) = zrange a n ++ zrange (a + Z.of_nat n) m.
Proof.
  revert a. induction n as [|n IH]; intros a.
  - cbn. f_equal. lia.
  - cbn [zrange Nat.add app]. rewrite IH. f_equal. f_equal. f_equal. lia.
Qed.
Lemma zrange_nodup a n : NoDup (zrange a n).
Proof.
  revert a. induction n as [|n IH]; intros a; [constructor|].
  cbn [zrange]. constructor; [|apply IH]. rewrite zrange_in. lia.
Qed.
Lemma zrange_sorted a n : StronglySorted Z.lt (zrange a n).
Proof.
  revert a. induction n as [|n IH]; intros a; [constructor|].
  cbn [zrange]. constructor; [apply IH|]. apply Forall_forall. intros x Hx. rewrite zrange_in in Hx. lia.
Qed.

Lemma rtl_ok : 0 <= RewardTimeLimit < two62.
Proof. split; [apply Z.leb_le | apply Z.ltb_lt]; vm_compute; reflexivity. Qed.

(* the configuration / state is in the range where int64 time arithmetic does not wrap *)
Definition cursor_ok (g dur last : Z) : Prop :=
  0 <= g /\ 1 <= dur < two62 /\ -1 <= last /\ g + dur * (last + 2) + RewardTimeLimit < two63.

Lemma update_due_spec g dur now last : cursor_ok g dur last ->
  update_due g dur now last = (epoch_end g dur (last + 1) + RewardTimeLimit <=? now).
Proof.
  intros [Hg [Hd [Hl Hr]]]. pose proof rtl_ok as HR. unfold update_due, epoch_end, two62, two63 in *.
  assert (0 <= dur * (last + 2)) by nia.
  rewrite (wrapS64_small (last + 1)) by (unfold two63; nia).
  replace (last + 1 + 1) with (last + 2) by lia.
  rewrite wrapS64_small by (unfold two63; lia).
  destruct (now <? g + dur * (last + 2) + RewardTimeLimit) eqn:E1;
  destruct (g + dur * (last + 2) + RewardTimeLimit <=? now) eqn:E2; cbn [negb]; lia.
Qed.

Lemma cursor_ok_step g dur now last : cursor_ok g dur last -> now < two62 ->
  update_due g dur now last = true -> cursor_ok g dur (last + 1) /\ wrapS 64 (last + 1) = last + 1.
Proof.
  intros Hok Hn Hdue. rewrite (update_due_spec _ _ _ _ Hok) in Hdue.
  destruct Hok as [Hg [Hd [Hl Hr]]]. pose proof rtl_ok as HR. unfold epoch_end, two62, two63 in *.
  assert (0 <= dur * (last + 2)) by nia.
  split; [|apply wrapS64_small; unfold two63; nia].
  unfold cursor_ok, two62, two63. repeat split; lia.
Qed.

(* one Update call: rewards exactly the epochs LastEpoch+1 .. LastEpoch+k in increasing order, every one of
   them ended at least RewardTimeLimit before the acknowledged momentum, and stops exactly when the next
   epoch is not yet due *)
Lemma update_loop_spec fuel : forall g dur now last es l',
  cursor_ok g dur last -> now < two62 ->
  update_loop fuel g dur now last = Some (es, l') ->
  es = zrange (last + 1) (length es) /\ l' = last + Z.of_nat (length es) /\
  Forall (fun e => epoch_end g dur e + RewardTimeLimit <= now) es /\
  now < epoch_end g dur (l' + 1) + RewardTimeLimit /\ cursor_ok g dur l'.
Proof.
  induction fuel as [|k IH]; intros g dur now last es l' Hok Hn H; [discriminate|].
  cbn [update_loop] in H. destruct (update_due g dur now last) eqn:Hdue.
  - destruct (cursor_ok_step _ _ _ _ Hok Hn Hdue) as [Hok' Hw]. rewrite Hw in H.
    destruct (update_loop k g dur now (last + 1)) as [[es1 l1]|] eqn:E; [|discriminate].
    inversion H. subst es l'. clear H.
    destruct (IH _ _ _ _ _ _ Hok' Hn E) as [A [B [C [D F]]]].
    rewrite (update_due_spec _ _ _ _ Hok) in Hdue.
    cbn [length zrange]. split; [f_equal; exact A|]. split; [lia|].
    split; [constructor; [lia|exact C]|]. split; [exact D|exact F].
  - inversion H. subst es l'. rewrite (update_due_spec _ _ _ _ Hok) in Hdue.
    cbn [length zrange]. split; [reflexivity|]. split; [lia|]. split; [constructor|].
    replace (last + Z.of_nat 0) with last by lia. split; [lia|exact Hok].
Qed.

(* enough fuel always exists: the loop terminates *)
Lemma update_loop_terminates fuel : forall g dur now last,
  cursor_ok g dur last -> now < two62 -> Z.max 0 (now - last) < Z.of_nat fuel ->
  update_loop fuel g dur now last <> None.
Proof.
  induction fuel as [|k IH]; intros g dur now last Hok Hn Hf; [lia|].
  cbn [update_loop]. destruct (update_due g dur now last) eqn:Hdue; [|discriminate].
  destruct (cursor_ok_step _ _ _ _ Hok Hn Hdue) as [Hok' Hw]. rewrite Hw.
  rewrite (update_due_spec _ _ _ _ Hok) in Hdue.
  destruct Hok as [Hg [Hd [Hl Hr]]]. pose proof rtl_ok as HR. unfold epoch_end in Hdue.
  assert (last + 2 <= dur * (last + 2)) by nia.
  specialize (IH g dur now (last + 1) Hok' Hn ltac:(lia)).
  destruct (update_loop k g dur now (last + 1)) as [[es1 l1]|]; [discriminate|congruence].
Qed.

(* any history of Update calls (any momentum times): the rewarded epochs, concatenated over the whole
   history, are LastEpoch0+1, LastEpoch0+2, ... without gap or repetition *)
Lemma run_updates_spec fuel g dur : forall nows last es l',
  cursor_ok g dur last -> Forall (fun now => now < two62) nows ->
  run_updates fuel g dur nows last = Some (es, l') ->
  es = zrange (last + 1) (length es) /\ l' = last + Z.of_nat (length es) /\ cursor_ok g dur l'.
Proof.
  induction nows as [|now nows IH]; intros last es l' Hok Hn H.
  - cbn in H. inversion H. subst. cbn [length zrange]. split; [reflexivity|].
    replace (l' + Z.of_nat 0) with l' by lia. split; [reflexivity|exact Hok].
  - cbn [run_updates] in H. inversion Hn as [|? ? Hn1 Hn2]. subst.
    destruct (update_loop fuel g dur now last) as [[es1 l1]|] eqn:E1; [|discriminate].
    destruct (run_updates fuel g dur nows l1) as [[es2 l2]|] eqn:E2; [|discriminate].
    inversion H. subst es l'. clear H.
    destruct (update_loop_spec fuel _ _ _ _ _ _ Hok Hn1 E1) as [A [B [_ [_ Hok1]]]].
    destruct (IH _ _ _ Hok1 Hn2 E2) as [A2 [B2 Hok2]].
    rewrite app_length, zrange_app. split; [|split; [lia|exact Hok2]].
    rewrite <- A. f_equal. rewrite A2 at 1. f_equal. lia.
Qed.

Lemma update_due_mono g dur now l1 l2 : cursor_ok g dur l1 -> cursor_ok g dur l2 -> l1 <= l2 ->
  update_due g dur now l2 = true -> update_due g dur now l1 = true.
Proof.
  intros H1 H2 Hle. rewrite (update_due_spec _ _ _ _ H1), (update_due_spec _ _ _ _ H2).
  destruct H1 as [Hg [Hd _]]. unfold epoch_end. intros H. apply Z.leb_le in H. apply Z.leb_le. nia.
Qed.

Lemma max_epochs_even : MaxEpochsPerUpdate = 2 * (MaxEpochsPerUpdate / 2) /\ 0 <= MaxEpochsPerUpdate / 2.
Proof. split; [vm_compute; reflexivity | apply Z.leb_le; vm_compute; reflexivity]. Qed.

(* the liquidity variant of the loop agrees with the plain loop as long as not more than
   MaxEpochsPerUpdate/2 epochs are due in one call *)
Lemma liquidity_loop_partial fuel : forall g dur now last j,
  cursor_ok g dur last -> now < two62 -> 0 <= j ->
  (MaxEpochsPerUpdate / 2 - j < 0 \/
   (cursor_ok g dur (last + (MaxEpochsPerUpdate / 2 - j)) /\
    update_due g dur now (last + (MaxEpochsPerUpdate / 2 - j)) = false)) ->
  (MaxEpochsPerUpdate / 2 - j < 0 -> update_due g dur now last = false) ->
  liquidity_loop_old fuel g dur now last (2 * j) = update_loop fuel g dur now last.
Proof.
  destruct max_epochs_even as [Hev Hh0]. set (H := MaxEpochsPerUpdate / 2) in *.
  induction fuel as [|k IH]; intros g dur now last j Hok Hn Hj Hnd Hneg; [reflexivity|].
  cbn [liquidity_loop_old update_loop]. destruct (update_due g dur now last) eqn:Hdue; cbn [negb]; [|reflexivity].
  destruct (cursor_ok_step _ _ _ _ Hok Hn Hdue) as [Hok' Hw]. rewrite Hw.
  assert (Hlt : j < H).
  { destruct (Z_lt_le_dec j H) as [|Hge]; [assumption|exfalso].
    destruct Hnd as [Hn0|[Hok2 Hnd]].
    - specialize (Hneg Hn0). congruence.
    - assert (Hdue2 : update_due g dur now (last + (H - j)) = true).
      { apply (update_due_mono g dur now _ last Hok2 Hok); [lia|exact Hdue]. }
      congruence. }
  destruct (MaxEpochsPerUpdate <=? 2 * j) eqn:E; [lia|].
  replace (2 * j + 2) with (2 * (j + 1)) by lia.
  rewrite IH; [reflexivity| exact Hok' | exact Hn | lia | | intros; lia].
  right. destruct Hnd as [Hn0|[Hok2 Hnd]]; [lia|].
  replace (last + 1 + (H - (j + 1))) with (last + (H - j)) by lia. split; assumption.
Qed.

(* ------------------------------------------------------------------ deposits *)

Lemma lookup_filter_same {A} a (ds : list (Z * A)) :
  lookup a (filter (fun kv => negb (fst kv =? a)) ds) = None.
Proof.
  unfold lookup. induction ds as [|kv ds IH]; [reflexivity|]. cbn [filter].
  destruct (fst kv =? a) eqn:E; cbn [negb]; [exact IH|]. cbn [find]. rewrite E. exact IH.
Qed.
Lemma lookup_filter_other {A} a b (ds : list (Z * A)) : a <> b ->
  lookup b (filter (fun kv => negb (fst kv =? a)) ds) = lookup b ds.
Proof.
  intros Hne. unfold lookup. induction ds as [|kv ds IH]; [reflexivity|]. cbn [filter find].
  destruct (fst kv =? a) eqn:E; cbn [negb].
  - destruct (fst kv =? b) eqn:E2; [lia|exact IH].
  - cbn [find]. destruct (fst kv =? b); [reflexivity|exact IH].
Qed.

Lemma dep_get_del_same a ds : dep_get a (dep_del a ds) = (0, 0).
Proof. unfold dep_get, dep_del. rewrite lookup_filter_same. reflexivity. Qed.
Lemma dep_get_del_other a b ds : a <> b -> dep_get b (dep_del a ds) = dep_get b ds.
Proof. intros. unfold dep_get, dep_del. rewrite lookup_filter_other by assumption. reflexivity. Qed.
Lemma dep_get_set_same a d ds : dep_get a (dep_set a d ds) = d.
Proof. unfold dep_get, dep_set, lookup. cbn [find fst]. rewrite Z.eqb_refl. reflexivity. Qed.
Lemma dep_get_set_other a b d ds : a <> b -> dep_get b (dep_set a d ds) = dep_get b ds.
Proof.
  intros Hne. unfold dep_get, dep_set. unfold lookup at 1. cbn [find fst].
  destruct (a =? b) eqn:E; [lia|]. fold (lookup b (dep_del a ds)).
  unfold dep_del. rewrite lookup_filter_other by assumption. reflexivity.
Qed.

Definition deps_nonneg (ds : deposits) : Prop := forall a, 0 <= fst (dep_get a ds) /\ 0 <= snd (dep_get a ds).

(* CollectReward: mints exactly the deposit, deletes it; collecting again fails *)
Theorem collect_exact ds a : deps_nonneg ds ->
  match collect ds a with
  | (Some ms, ds') =>
      dep_get a ds' = (0, 0) /\
      zsum (map snd (filter (fun m => fst m =? 0) ms)) = fst (dep_get a ds) /\
      zsum (map snd (filter (fun m => fst m =? 1) ms)) = snd (dep_get a ds) /\
      Forall (fun m => 0 < snd m) ms /\
      (forall b, b <> a -> dep_get b ds' = dep_get b ds) /\
      collect ds' a = (None, ds')
  | (None, ds') => ds' = ds /\ dep_get a ds = (0, 0)
  end.
Proof.
  intros Hnn. unfold collect. destruct (Hnn a) as [Hz Hq].
  destruct (dep_get a ds) as [z q] eqn:Ed. cbn [fst snd] in *.
  destruct ((Z.sgn z =? 0) && (Z.sgn q =? 0)) eqn:E0.
  - split; [reflexivity|]. f_equal; lia.
  - rewrite dep_get_del_same. cbn [fst snd Z.sgn Z.eqb andb].
    repeat split.
    + destruct (Z.sgn z =? 1) eqn:E1; destruct (Z.sgn q =? 1) eqn:E2; cbn; lia.
    + destruct (Z.sgn z =? 1) eqn:E1; destruct (Z.sgn q =? 1) eqn:E2; cbn; lia.
    + destruct (Z.sgn z =? 1) eqn:E1; destruct (Z.sgn q =? 1) eqn:E2; cbn; repeat constructor; cbn; lia.
    + intros b Hb. apply dep_get_del_other. lia.
Qed.

Lemma add_reward_get ds a z q b :
  dep_get b (add_reward ds a z q) =
  if a =? b then (fst (dep_get a ds) + z, snd (dep_get a ds) + q) else dep_get b ds.
Proof.
  unfold add_reward. destruct (a =? b) eqn:E.
  - assert (a = b) by lia. subst. apply dep_get_set_same.
  - apply dep_get_set_other. lia.
Qed.

Definition tok_of (tok : Z) (d : Z * Z) : Z := if tok =? 0 then fst d else snd d.

Lemma minted_of_app tok a m1 m2 : minted_of tok a (m1 ++ m2) = minted_of tok a m1 + minted_of tok a m2.
Proof. unfold minted_of. rewrite map_app, zsum_app. reflexivity. Qed.

Lemma collect_minted ds a ms ds' b tok : deps_nonneg ds -> (tok = 0 \/ tok = 1) ->
  collect ds a = (Some ms, ds') ->
  minted_of tok b (map (fun m => (a, m)) ms) = if a =? b then tok_of tok (dep_get a ds) else 0.
Proof.
  intros Hnn Ht. unfold collect. destruct (Hnn a) as [Hz Hq].
  destruct (dep_get a ds) as [z q]. cbn [fst snd] in *.
  destruct ((Z.sgn z =? 0) && (Z.sgn q =? 0)); [discriminate|].
  intros H. inversion H. subst. clear H. unfold minted_of, tok_of. cbn [fst snd].
  destruct (a =? b) eqn:E; destruct Ht; subst tok;
  destruct (Z.sgn z =? 1) eqn:E1; destruct (Z.sgn q =? 1) eqn:E2; cbn [app map fst snd zsum fold_right];
  rewrite ?E; cbn [andb Z.eqb Pos.eqb]; lia.
Qed.

(* conservation over any history of credits and collects: what was minted to an address plus what is still
   deposited for it equals what was credited to it (per token) — nothing is paid twice, nothing is lost *)
Theorem rewards_conserved tok : tok = 0 \/ tok = 1 -> forall ops ds minted ds' minted' a,
  deps_nonneg ds ->
  Forall (fun o => match o with Credit _ z q => 0 <= z /\ 0 <= q | Collect _ => True end) ops ->
  run_rops ops ds minted = (ds', minted') ->
  deps_nonneg ds' /\
  minted_of tok a minted' + tok_of tok (dep_get a ds') =
  minted_of tok a minted + tok_of tok (dep_get a ds) + credited tok a ops.
Proof.
  intros Ht. induction ops as [|o ops IH]; intros ds minted ds' minted' a Hnn Hops H.
  - cbn in H. inversion H. subst. split; [exact Hnn|]. unfold credited. cbn. lia.
  - inversion Hops as [|? ? Ho Hops']. subst. destruct o as [b z q|b]; cbn [run_rops] in H.
    + assert (Hnn' : deps_nonneg (add_reward ds b z q)).
      { intros c. rewrite add_reward_get. destruct (b =? c); [|apply Hnn]. destruct (Hnn b). cbn [fst snd]. lia. }
      destruct (IH _ _ _ _ a Hnn' Hops' H) as [A B]. split; [exact A|].
      rewrite B, add_reward_get. unfold credited. cbn [map]. rewrite zsum_cons. fold (credited tok a ops).
      unfold tok_of. destruct (b =? a) eqn:E.
      * assert (b = a) by lia. subst b. destruct Ht; subst tok; cbn [fst snd Z.eqb]; lia.
      * lia.
    + destruct (collect ds b) as [[ms|] ds1] eqn:Ec.
      * pose proof (collect_exact ds b Hnn) as Hce. rewrite Ec in Hce.
        destruct Hce as [C1 [_ [_ [_ [C5 _]]]]].
        assert (Hnn' : deps_nonneg ds1).
        { intros c. destruct (Z.eq_dec c b) as [->|Hne]; [rewrite C1; cbn; lia|]. rewrite C5 by exact Hne. apply Hnn. }
        destruct (IH _ _ _ _ a Hnn' Hops' H) as [A B]. split; [exact A|].
        rewrite B, minted_of_app, (collect_minted ds b ms ds1 a tok Hnn Ht Ec).
        unfold credited. cbn [map]. rewrite zsum_cons. fold (credited tok a ops).
        destruct (b =? a) eqn:E.
        -- assert (b = a) by lia. subst b. rewrite C1. unfold tok_of at 2. cbn [fst snd]. destruct (tok =? 0); lia.
        -- rewrite C5 by lia. lia.
      * pose proof (collect_exact ds b Hnn) as Hce. rewrite Ec in Hce. destruct Hce as [-> _].
        destruct (IH _ _ _ _ a Hnn Hops' H) as [A B]. split; [exact A|].
        rewrite B. unfold credited. cbn [map]. rewrite zsum_cons. fold (credited tok a ops). lia.
Qed.

(* ------------------------------------------------------------------ finding (fixed in /repo a732e8e): the old updateLiquidityRewards skips an epoch.
   With more than MaxEpochsPerUpdate/2 epochs due, the loop stores LastEpoch+1 (inside
   checkAndPerformUpdateEpoch) and only then notices len(result) >= MaxEpochsPerUpdate and returns: the
   cursor has passed an epoch for which no reward was minted.  Witness: genesis 0, 1-second epochs,
   LastEpoch = -1, now = RewardTimeLimit + 12. *)
Lemma liquidity_cursor_refuted :
  exists g dur now last es l',
    cursor_ok g dur last /\ now < two62 /\
    liquidity_loop_old 100 g dur now last 0 = Some (es, l') /\
    l' <> last + Z.of_nat (length es).
Proof.
  exists 0, 1, (RewardTimeLimit + 12), (-1).
  eexists. eexists. split; [|split; [|split]].
  - unfold cursor_ok, two62, two63. vm_compute. repeat split; discriminate.
  - vm_compute. reflexivity.
  - vm_compute. reflexivity.
  - vm_compute. discriminate.
Qed.

Lemma liquidity_cursor_partial fuel g dur now last es l' :
  cursor_ok g dur last -> now < two62 ->
  cursor_ok g dur (last + MaxEpochsPerUpdate / 2) ->
  update_due g dur now (last + MaxEpochsPerUpdate / 2) = false ->
  liquidity_loop_old fuel g dur now last 0 = Some (es, l') ->
  es = zrange (last + 1) (length es) /\ l' = last + Z.of_nat (length es) /\
  Forall (fun e => epoch_end g dur e + RewardTimeLimit <= now) es /\
  now < epoch_end g dur (l' + 1) + RewardTimeLimit.
Proof.
  intros Hok Hn Hok2 Hnd H. destruct max_epochs_even as [_ Hh0].
  change 0 with (2 * 0) in H at 1.
  rewrite (liquidity_loop_partial fuel g dur now last 0 Hok Hn ltac:(lia)) in H.
  - destruct (update_loop_spec fuel _ _ _ _ _ _ Hok Hn H) as [A [B [C [D _]]]]. repeat split; assumption.
  - right. rewrite Z.sub_0_r. split; assumption.
  - intros. lia.
Qed.

(* ------------------------------------------------------------------ the fixed liquidity loop *)

(* one Update of the liquidity contract: exactly the epochs LastEpoch+1 .. LastEpoch+k are rewarded, in order, the
   stored cursor is LastEpoch+k, every rewarded epoch ended RewardTimeLimit before `now`, at most
   MaxEpochsPerUpdate/2 epochs per call, and the call stops early only because of that limit *)
Lemma liquidity_loop_spec fuel : forall g dur now last nres es l',
  cursor_ok g dur last -> now < two62 -> 0 <= nres ->
  liquidity_loop fuel g dur now last nres = Some (es, l') ->
  es = zrange (last + 1) (length es) /\ l' = last + Z.of_nat (length es) /\
  Forall (fun e => epoch_end g dur e + RewardTimeLimit <= now) es /\
  cursor_ok g dur l' /\
  (es <> [] -> nres + 2 * Z.of_nat (length es) < MaxEpochsPerUpdate + 2) /\
  (now < epoch_end g dur (l' + 1) + RewardTimeLimit \/ MaxEpochsPerUpdate <= nres + 2 * Z.of_nat (length es)).
Proof.
  induction fuel as [|k IH]; intros g dur now last nres es l' Hok Hn Hnr H; [discriminate|].
  cbn [liquidity_loop] in H. destruct (MaxEpochsPerUpdate <=? nres) eqn:Ecap.
  - inversion H. subst es l'. cbn [length zrange]. split; [reflexivity|]. split; [lia|]. split; [constructor|].
    replace (last + Z.of_nat 0) with last by lia. split; [exact Hok|]. split; [intros X; contradiction|]. right. cbn. lia.
  - destruct (update_due g dur now last) eqn:Hdue; cbn [negb] in H.
    + destruct (cursor_ok_step _ _ _ _ Hok Hn Hdue) as [Hok' Hw]. rewrite Hw in H.
      destruct (liquidity_loop k g dur now (last + 1) (nres + 2)) as [[es1 l1]|] eqn:E; [|discriminate].
      inversion H. subst es l'. clear H.
      assert (Hnr2 : 0 <= nres + 2) by lia.
      destruct (IH _ _ _ _ _ _ _ Hok' Hn Hnr2 E) as [A [B [C [D [F G]]]]].
      rewrite (update_due_spec _ _ _ _ Hok) in Hdue.
      cbn [length zrange]. split; [f_equal; exact A|]. split; [lia|].
      split; [constructor; [lia|exact C]|]. split; [exact D|]. split.
      * intros _. destruct es1 as [|e1 es1']; [cbn [length]; lia|].
        assert (Hne : e1 :: es1' <> []) by discriminate. specialize (F Hne). lia.
      * destruct G as [G|G]; [left; exact G|right; lia].
    + inversion H. subst es l'. rewrite (update_due_spec _ _ _ _ Hok) in Hdue.
      cbn [length zrange]. split; [reflexivity|]. split; [lia|]. split; [constructor|].
      replace (last + Z.of_nat 0) with last by lia. split; [exact Hok|]. split; [intros X; contradiction|]. left. lia.
Qed.

Lemma liquidity_loop_terminates fuel : forall g dur now last nres,
  0 <= nres -> MaxEpochsPerUpdate - nres + 1 < 2 * Z.of_nat fuel -> 0 < Z.of_nat fuel ->
  liquidity_loop fuel g dur now last nres <> None.
Proof.
  induction fuel as [|k IH]; intros g dur now last nres Hnr Hf Hpos; [lia|].
  cbn [liquidity_loop]. destruct (MaxEpochsPerUpdate <=? nres) eqn:Ecap; [discriminate|].
  destruct (negb (update_due g dur now last)); [discriminate|].
  assert (Hk : 0 < Z.of_nat k) by lia.
  assert (H1 : 0 <= nres + 2) by lia.
  assert (H2 : MaxEpochsPerUpdate - (nres + 2) + 1 < 2 * Z.of_nat k) by lia.
  specialize (IH g dur now (wrapS 64 (last + 1)) (nres + 2) H1 H2 Hk).
  destruct (liquidity_loop k g dur now (wrapS 64 (last + 1)) (nres + 2)) as [[a b]|]; [discriminate|congruence].
Qed.

(* histories of liquidity updates: no epoch is skipped or repeated *)
Fixpoint run_liquidity_updates (fuel : nat) (g dur : Z) (nows : list Z) (last : Z) : option (list Z * Z) :=
  match nows with
  | [] => Some ([], last)
  | now :: r =>
    match liquidity_loop fuel g dur now last 0 with
    | None => None
    | Some (es, l') =>
      match run_liquidity_updates fuel g dur r l' with
      | Some (es', l'') => Some (es ++ es', l'')
      | None => None
      end
    end
  end.

Lemma run_liquidity_updates_spec fuel g dur : forall nows last es l',
  cursor_ok g dur last -> Forall (fun now => now < two62) nows ->
  run_liquidity_updates fuel g dur nows last = Some (es, l') ->
  es = zrange (last + 1) (length es) /\ l' = last + Z.of_nat (length es).
Proof.
  induction nows as [|now nows IH]; intros last es l' Hok Hn H.
  - cbn in H. inversion H. subst. cbn [length zrange]. split; [reflexivity|lia].
  - cbn [run_liquidity_updates] in H. inversion Hn as [|? ? Hn1 Hn2]. subst.
    destruct (liquidity_loop fuel g dur now last 0) as [[es1 l1]|] eqn:E1; [|discriminate].
    destruct (run_liquidity_updates fuel g dur nows l1) as [[es2 l2]|] eqn:E2; [|discriminate].
    inversion H. subst es l'. clear H.
    destruct (liquidity_loop_spec fuel _ _ _ _ _ _ _ Hok Hn1 (Z.le_refl 0) E1) as [A [B [_ [Hok1 _]]]].
    destruct (IH _ _ _ Hok1 Hn2 E2) as [A2 B2].
    rewrite app_length, zrange_app. split; [|lia].
    rewrite <- A. f_equal. rewrite A2 at 1. f_equal. lia.
Qed.

(* ------------------------------------------------------------------ liquidity stake rewards (after the spork) *)

(* whatever the token tuples, stake entries, balances and additional rewards are: if the routine completes, what
   it credits plus what it mints to the contract minus what it burns from the contract's balance is exactly the
   epoch's liquidity share of the emission; credits never exceed that share plus the burned additional reward;
   the additional reward is only taken if the balance covers it *)
Theorem liquidity_stake_exact epoch s e halted bal_z bal_q extra_z extra_q ts l r :
  0 <= epoch < two64 ->
  liq_stake_rewards epoch s e halted bal_z bal_q extra_z extra_q ts l = Ok (Done r) ->
  exists z q lz lq, NetworkZnnRewardPerEpoch epoch = Ok z /\ NetworkQsrRewardPerEpoch epoch = Ok q /\
    LiquidityRewardForEpoch epoch = Ok (lz, lq) /\ 0 <= lz <= z /\ 0 <= lq <= q /\
    zsum (map (fun c => fst (snd c)) (lq_credits r)) + fst (lq_mint r) - fst (lq_burn r) = lz /\
    zsum (map (fun c => snd (snd c)) (lq_credits r)) + snd (lq_mint r) - snd (lq_burn r) = lq /\
    zsum (map (fun c => fst (snd c)) (lq_credits r)) <= lz + fst (lq_burn r) /\
    zsum (map (fun c => snd (snd c)) (lq_credits r)) <= lq + snd (lq_burn r) /\
    0 <= fst (lq_mint r) /\ 0 <= snd (lq_mint r) /\
    (fst (lq_burn r) = 0 \/ (fst (lq_burn r) = extra_z /\ 0 < extra_z <= bal_z)) /\
    (snd (lq_burn r) = 0 \/ (snd (lq_burn r) = extra_q /\ 0 < extra_q <= bal_q)).
Proof.
  intros Hep. destruct (liquidity_share epoch Hep) as [z [q [lz [lq [Hz [Hq [Hl [Hlz Hlq]]]]]]]].
  unfold liq_stake_rewards. rewrite Hl. cbn [bind fst snd]. intros H.
  exists z, q, lz, lq. split; [exact Hz|]. split; [exact Hq|]. split; [reflexivity|]. split; [exact Hlz|]. split; [exact Hlq|].
  destruct halted.
  - inversion H. subst r. cbn [lq_credits lq_mint lq_burn map zsum fold_right fst snd]. repeat split; try lia; left; reflexivity.
  - set (take := negb (bal_z <? extra_z) && negb (bal_q <? extra_q)) in *.
    set (bz := if take && (0 <? extra_z) then extra_z else 0) in *.
    set (bq := if take && (0 <? extra_q) then extra_q else 0) in *.
    match type of H with context [flat_map ?f l] => set (credits := flat_map f l) in * end.
    set (fz := zsum (map (fun c => fst (snd c)) credits)) in *.
    set (fq := zsum (map (fun c => snd (snd c)) credits)) in *.
    destruct ((lz + bz <? fz) || (lq + bq <? fq)) eqn:Ebad; [discriminate|].
    inversion H. subst r. clear H. cbn [lq_credits lq_mint lq_burn fst snd]. fold fz fq.
    assert (Hbz : bz = 0 \/ (bz = extra_z /\ 0 < extra_z <= bal_z)).
    { unfold bz, take. destruct (bal_z <? extra_z) eqn:E1; cbn [negb andb]; [left; reflexivity|].
      destruct (bal_q <? extra_q); cbn [negb andb]; [left; reflexivity|].
      destruct (0 <? extra_z) eqn:E3; [right; lia|left; reflexivity]. }
    assert (Hbq : bq = 0 \/ (bq = extra_q /\ 0 < extra_q <= bal_q)).
    { unfold bq, take. destruct (bal_z <? extra_z) eqn:E1; cbn [negb andb]; [left; reflexivity|].
      destruct (bal_q <? extra_q) eqn:E2; cbn [negb andb]; [left; reflexivity|].
      destruct (0 <? extra_q) eqn:E3; [right; lia|left; reflexivity]. }
    destruct (fz <? lz + bz) eqn:E1; destruct (fq <? lq + bq) eqn:E2; repeat split; try lia; assumption.
Qed.

(* ---- the epoch cursor of the model IS the code: CanPerformEpochUpdate and checkAndPerformUpdateEpoch
   (vm/embedded/implementation/common.go) as translated by go2coq on every run. The end time of epoch LastEpoch+1 (the
   epoch ticker's ToTime), the frontier momentum and the result of LastEpochUpdate.Save are inputs of the translations. *)
Lemma update_due_is_source g dur now last :
  ZV.gen.PureCursor.CanPerformEpochUpdate 0 now (epoch_end g dur (wrapS 64 (last + 1))) =
  if update_due g dur now last then 0 else ZV.gen.Pure.Err_constants_ErrEpochUpdateTooRecent.
Proof.
  unfold ZV.gen.PureCursor.CanPerformEpochUpdate, update_due. cbv zeta. change (0 =? 0) with true. cbn [negb].
  destruct (now <? wrapS 64 (epoch_end g dur (wrapS 64 (last + 1)) + RewardTimeLimit)); reflexivity.
Qed.

Lemma cursor_step_is_source g dur now last saved :
  ZV.gen.PureCursor.checkAndPerformUpdateEpoch last
    (ZV.gen.PureCursor.CanPerformEpochUpdate 0 now (epoch_end g dur (wrapS 64 (last + 1)))) saved =
  if update_due g dur now last then (saved, wrapS 64 (last + 1))
  else (ZV.gen.Pure.Err_constants_ErrEpochUpdateTooRecent, last).
Proof.
  rewrite update_due_is_source. unfold ZV.gen.PureCursor.checkAndPerformUpdateEpoch. cbv zeta.
  destruct (update_due g dur now last); reflexivity.
Qed.

(* one turn of `for { checkAndPerformUpdateEpoch; compute }` is one turn of update_loop *)
Lemma update_loop_unfold_source k g dur now last :
  update_loop (S k) g dur now last =
  match ZV.gen.PureCursor.checkAndPerformUpdateEpoch last
          (ZV.gen.PureCursor.CanPerformEpochUpdate 0 now (epoch_end g dur (wrapS 64 (last + 1)))) 0 with
  | (0, last') => match update_loop k g dur now last' with
                  | Some (es, l') => Some (last' :: es, l')
                  | None => None
                  end
  | (_, _) => Some ([], last)
  end.
Proof.
  rewrite cursor_step_is_source. cbn [update_loop].
  destruct (update_due g dur now last); reflexivity.
Qed.

(* the contract-level update gate (CanPerformUpdate): due iff UpdateMinNumMomentums momentums passed, uint64 arithmetic *)
Lemma update_gate_is_source h lastu :
  ZV.gen.PureCursor.CanPerformUpdate 0 h 0 lastu =
  if wrapU 64 (lastu + UpdateMinNumMomentums) <=? h then 0 else ZV.gen.Pure.Err_constants_ErrUpdateTooRecent.
Proof. reflexivity. Qed.

(* ------------------------------------------------------------------ what one liquidity Update issues *)

(* one issued pair of Mint blocks: the amounts are the emission of the epoch they are issued FOR (not of the first
   epoch of the call, not of the epoch before), and therefore within that epoch's network emission *)
Definition issue_ok (m : Z * (Z * Z)) : Prop :=
  0 <= fst m < two64 /\ LiquidityRewardForEpoch (fst m) = Ok (snd m) /\
  exists z q, NetworkZnnRewardPerEpoch (fst m) = Ok z /\ NetworkQsrRewardPerEpoch (fst m) = Ok q /\
    0 <= fst (snd m) <= z /\ 0 <= snd (snd m) <= q.

Lemma liquidity_issue_spec fuel : forall g dur now last nres es l',
  cursor_ok g dur last -> now < two62 ->
  liquidity_loop fuel g dur now last nres = Some (es, l') ->
  exists ms, liquidity_issue fuel g dur now last nres = Some (Done (ms, l')) /\ map fst ms = es /\ Forall issue_ok ms.
Proof.
  induction fuel as [|k IH]; intros g dur now last nres es l' Hok Hn H; [discriminate|].
  cbn [liquidity_loop] in H. cbn [liquidity_issue].
  destruct (MaxEpochsPerUpdate <=? nres) eqn:Ecap.
  - inversion H. subst es l'. exists []. split; [reflexivity|]. split; [reflexivity|constructor].
  - destruct (update_due g dur now last) eqn:Hdue; cbn [negb] in *.
    + destruct (cursor_ok_step _ _ _ _ Hok Hn Hdue) as [Hok' Hw]. rewrite Hw in *.
      destruct (liquidity_loop k g dur now (last + 1) (nres + 2)) as [[es1 l1]|] eqn:E; [|discriminate].
      inversion H. subst es l'. clear H.
      destruct (IH _ _ _ _ _ _ _ Hok' Hn E) as [ms [A [B C]]].
      assert (He : 0 <= last + 1 < two64).
      { destruct Hok' as [Hg [Hd [Hl Hr]]]. destruct Hok as [_ [_ [Hl0 _]]]. pose proof rtl_ok as HR.
        assert (X : 0 <= (dur - 1) * (last + 1 + 2)) by (apply Z.mul_nonneg_nonneg; lia).
        unfold two62, two63, two64 in *. lia. }
      assert (Hu : u64 (last + 1) = last + 1) by (unfold u64; apply Z.mod_small; exact He).
      rewrite Hu. destruct (liquidity_share _ He) as [z [q [lz [lq [Hz [Hq [Hl [Hb1 Hb2]]]]]]]].
      rewrite Hl, A. exists ((last + 1, (lz, lq)) :: ms). split; [reflexivity|].
      split; [cbn [map fst]; f_equal; exact B|].
      constructor; [|exact C]. unfold issue_ok; cbn [fst snd].
      split; [exact He|]. split; [exact Hl|]. exists z, q. repeat split; try assumption; lia.
    + inversion H. subst es l'. exists []. split; [reflexivity|]. split; [reflexivity|constructor].
Qed.
