(* C11 — proofs about the reward model (Rewards.v) and the translated emission functions (gen/Pure.v). *)
From ZV Require Import Prelude GoSem Rewards.
From ZV.gen Require Import Consts Pure.
Open Scope Z_scope.
Ltac Zify.zify_post_hook ::= Z.div_mod_to_equations.

(* ------------------------------------------------------------------ facts about the dumped constants.
   Each is re-checked by computation on the regenerated Consts.v: a changed table or percentage that
   violates one of them breaks the build of this file. *)

(* largest per-epoch amount for which amount * 100 still fits an int64 *)
Definition emission_cap : Z := 92233720368547758.

Lemma znn_table_ok : forallb (fun x => (0 <=? x) && (x <=? emission_cap)) NetworkZnnRewardConfig = true.
Proof. vm_compute. reflexivity. Qed.
Lemma qsr_table_ok : forallb (fun x => (0 <=? x) && (x <=? emission_cap)) NetworkQsrRewardConfig = true.
Proof. vm_compute. reflexivity. Qed.
Lemma znn_table_len : 0 < Z.of_nat (length NetworkZnnRewardConfig) < 1000000.
Proof. split; apply Z.ltb_lt; vm_compute; reflexivity. Qed.
Lemma qsr_table_len : 0 < Z.of_nat (length NetworkQsrRewardConfig) < 1000000.
Proof. split; apply Z.ltb_lt; vm_compute; reflexivity. Qed.
Lemma tickdur_ok : 2 <= RewardTickDurationInEpochs < two63.
Proof. split; [apply Z.leb_le | apply Z.ltb_lt]; vm_compute; reflexivity. Qed.
Lemma mpe_ok : 0 < MomentumsPerEpoch < two63.
Proof. split; apply Z.ltb_lt; vm_compute; reflexivity. Qed.
Lemma big100_ok : Big100 = 100.
Proof. vm_compute. reflexivity. Qed.

(* the percentage split of the per-epoch emission *)
Lemma znn_percentages :
  0 <= DelegationZnnRewardPercentage /\ 0 <= MomentumProducingZnnRewardPercentage /\
  0 <= SentinelZnnRewardPercentage /\ 0 <= LiquidityZnnRewardPercentage /\
  DelegationZnnRewardPercentage + MomentumProducingZnnRewardPercentage +
  SentinelZnnRewardPercentage + LiquidityZnnRewardPercentage <= 100.
Proof. repeat split; apply Z.leb_le; vm_compute; reflexivity. Qed.
Lemma qsr_percentages :
  0 <= StakingQsrRewardPercentage /\ 0 <= SentinelQsrRewardPercentage /\ 0 <= LiquidityQsrRewardPercentage /\
  StakingQsrRewardPercentage + SentinelQsrRewardPercentage + LiquidityQsrRewardPercentage <= 100.
Proof. repeat split; apply Z.leb_le; vm_compute; reflexivity. Qed.

Lemma table_in_range l x :
  forallb (fun x => (0 <=? x) && (x <=? emission_cap)) l = true -> In x l -> 0 <= x <= emission_cap.
Proof. intros H Hin. rewrite forallb_forall in H. specialize (H x Hin). lia. Qed.

(* ------------------------------------------------------------------ the translated emission functions never panic *)

Lemma two_pow_64 : 2 ^ 64 = two64. Proof. reflexivity. Qed.
Lemma two_pow_63 : 2 ^ 63 = two63. Proof. reflexivity. Qed.

(* the table lookup shared by NetworkZnnRewardPerEpoch / NetworkQsrRewardPerEpoch *)
Lemma table_lookup_ok (tbl : list Z) e :
  0 < Z.of_nat (length tbl) < 1000000 -> 0 <= e < two64 ->
  exists z, In z tbl /\
  (guard (negb (RewardTickDurationInEpochs =? 0))
     (let tick := wrapS 64 (wrapU 64 (Z.quot e RewardTickDurationInEpochs)) in
      if Z.of_nat (length tbl) <=? tick
      then guard ((0 <=? wrapS 64 (Z.of_nat (length tbl) - 1)) && (wrapS 64 (Z.of_nat (length tbl) - 1) <? Z.of_nat (length tbl)))
                 (Ok (nth (Z.to_nat (wrapS 64 (Z.of_nat (length tbl) - 1))) tbl 0))
      else guard ((0 <=? tick) && (tick <? Z.of_nat (length tbl))) (Ok (nth (Z.to_nat tick) tbl 0)))) = Ok z.
Proof.
  intros Hlen He. pose proof tickdur_ok as Hd.
  destruct (RewardTickDurationInEpochs =? 0) eqn:E0; [lia|]. cbn [negb guard].
  rewrite Z.quot_div_nonneg by lia.
  assert (Hq : 0 <= e / RewardTickDurationInEpochs < two63).
  { split; [apply Z.div_pos; lia|]. apply Z.div_lt_upper_bound; [lia|]. unfold two64, two63 in *. nia. }
  rewrite (wrapU64_small (e / RewardTickDurationInEpochs)) by (unfold two64, two63 in *; lia).
  rewrite (wrapS64_small (e / RewardTickDurationInEpochs)) by (unfold two63 in *; lia).
  rewrite (wrapS64_small (Z.of_nat (length tbl) - 1)) by (unfold two63; lia).
  cbv zeta.
  destruct (Z.of_nat (length tbl) <=? e / RewardTickDurationInEpochs) eqn:E1.
  - destruct ((0 <=? Z.of_nat (length tbl) - 1) && (Z.of_nat (length tbl) - 1 <? Z.of_nat (length tbl))) eqn:E2; [|lia].
    cbn [guard]. eexists; split; [|reflexivity]. apply nth_In. lia.
  - destruct ((0 <=? e / RewardTickDurationInEpochs) && (e / RewardTickDurationInEpochs <? Z.of_nat (length tbl))) eqn:E2; [|lia].
    cbn [guard]. eexists; split; [|reflexivity]. apply nth_In. lia.
Qed.

Lemma znn_per_epoch_ok e : 0 <= e < two64 ->
  exists z, NetworkZnnRewardPerEpoch e = Ok z /\ 0 <= z <= emission_cap.
Proof.
  intros He. destruct (table_lookup_ok NetworkZnnRewardConfig e znn_table_len He) as [z [Hin Hz]].
  exists z. split; [exact Hz|]. exact (table_in_range _ _ znn_table_ok Hin).
Qed.
Lemma qsr_per_epoch_ok e : 0 <= e < two64 ->
  exists z, NetworkQsrRewardPerEpoch e = Ok z /\ 0 <= z <= emission_cap.
Proof.
  intros He. destruct (table_lookup_ok NetworkQsrRewardConfig e qsr_table_len He) as [z [Hin Hz]].
  exists z. split; [exact Hz|]. exact (table_in_range _ _ qsr_table_ok Hin).
Qed.

(* (z * p) / 100 in int64 arithmetic, for a table amount z and a percentage p *)
Lemma pct_exact z p : 0 <= z <= emission_cap -> 0 <= p <= 100 ->
  wrapS 64 (Z.quot (wrapS 64 (z * p)) 100) = z * p / 100.
Proof.
  intros Hz Hp. unfold emission_cap in Hz.
  assert (0 <= z * p <= 9223372036854775800) by nia.
  rewrite (wrapS64_small (z * p)) by (unfold two63; lia).
  rewrite Z.quot_div_nonneg by lia.
  apply wrapS64_small. unfold two63. lia.
Qed.
Lemma pct_mpe_exact x : 0 <= x < two63 ->
  wrapS 64 (Z.quot x MomentumsPerEpoch) = x / MomentumsPerEpoch.
Proof.
  intros Hx. pose proof mpe_ok. rewrite Z.quot_div_nonneg by lia.
  apply wrapS64_small. unfold two63 in *. split; [|apply Z.div_lt_upper_bound; nia].
  assert (0 <= x / MomentumsPerEpoch) by (apply Z.div_pos; lia). lia.
Qed.

Lemma pillar_per_momentum_ok e : 0 <= e < two64 ->
  exists z, NetworkZnnRewardPerEpoch e = Ok z /\ 0 <= z <= emission_cap /\
  PillarRewardPerMomentum e =
    Ok (z * DelegationZnnRewardPercentage / 100 / MomentumsPerEpoch,
        z * MomentumProducingZnnRewardPercentage / 100 / MomentumsPerEpoch).
Proof.
  intros He. destruct (znn_per_epoch_ok e He) as [z [Hz Hr]]. exists z. split; [exact Hz|]. split; [exact Hr|].
  pose proof znn_percentages as Hp. pose proof mpe_ok as Hm.
  unfold PillarRewardPerMomentum. rewrite Hz. cbn [bind].
  destruct (MomentumsPerEpoch =? 0) eqn:E0; [lia|]. cbn [negb guard].
  rewrite !pct_exact by lia.
  assert (0 <= z * DelegationZnnRewardPercentage / 100 < two63).
  { unfold emission_cap, two63 in *. split; [apply Z.div_pos; nia|]. apply Z.div_lt_upper_bound; nia. }
  assert (0 <= z * MomentumProducingZnnRewardPercentage / 100 < two63).
  { unfold emission_cap, two63 in *. split; [apply Z.div_pos; nia|]. apply Z.div_lt_upper_bound; nia. }
  rewrite !pct_mpe_exact by assumption. reflexivity.
Qed.

Lemma sentinel_for_epoch_ok e : 0 <= e < two64 ->
  exists z q, NetworkZnnRewardPerEpoch e = Ok z /\ NetworkQsrRewardPerEpoch e = Ok q /\
  0 <= z <= emission_cap /\ 0 <= q <= emission_cap /\
  SentinelRewardForEpoch e = Ok (z * SentinelZnnRewardPercentage / 100, q * SentinelQsrRewardPercentage / 100).
Proof.
  intros He. destruct (znn_per_epoch_ok e He) as [z [Hz Hr]]. destruct (qsr_per_epoch_ok e He) as [q [Hq Hs]].
  exists z, q. repeat split; try assumption; try lia.
  pose proof znn_percentages. pose proof qsr_percentages.
  unfold SentinelRewardForEpoch. rewrite Hz, Hq. cbn [bind]. rewrite !pct_exact by lia. reflexivity.
Qed.
Lemma liquidity_for_epoch_ok e : 0 <= e < two64 ->
  exists z q, NetworkZnnRewardPerEpoch e = Ok z /\ NetworkQsrRewardPerEpoch e = Ok q /\
  0 <= z <= emission_cap /\ 0 <= q <= emission_cap /\
  LiquidityRewardForEpoch e = Ok (z * LiquidityZnnRewardPercentage / 100, q * LiquidityQsrRewardPercentage / 100).
Proof.
  intros He. destruct (znn_per_epoch_ok e He) as [z [Hz Hr]]. destruct (qsr_per_epoch_ok e He) as [q [Hq Hs]].
  exists z, q. repeat split; try assumption; try lia.
  pose proof znn_percentages. pose proof qsr_percentages.
  unfold LiquidityRewardForEpoch. rewrite Hz, Hq. cbn [bind]. rewrite !pct_exact by lia. reflexivity.
Qed.
Lemma stake_per_epoch_ok e : 0 <= e < two64 ->
  exists q, NetworkQsrRewardPerEpoch e = Ok q /\ 0 <= q <= emission_cap /\
  StakeQsrRewardPerEpoch e = Ok (q * StakingQsrRewardPercentage / 100).
Proof.
  intros He. destruct (qsr_per_epoch_ok e He) as [q [Hq Hs]].
  exists q. repeat split; try assumption; try lia.
  pose proof qsr_percentages.
  unfold StakeQsrRewardPerEpoch. rewrite Hq. cbn [bind]. rewrite !pct_exact by lia. reflexivity.
Qed.

(* no reward function panics on any uint64 epoch *)
Lemma emission_no_panic e : 0 <= e < two64 ->
  NetworkZnnRewardPerEpoch e <> Panic /\ NetworkQsrRewardPerEpoch e <> Panic /\
  PillarRewardPerMomentum e <> Panic /\ SentinelRewardForEpoch e <> Panic /\
  LiquidityRewardForEpoch e <> Panic /\ StakeQsrRewardPerEpoch e <> Panic.
Proof.
  intros He.
  destruct (pillar_per_momentum_ok e He) as [z [Hz [_ Hp]]].
  destruct (sentinel_for_epoch_ok e He) as [z' [q [_ [Hq [_ [_ Hs]]]]]].
  destruct (liquidity_for_epoch_ok e He) as [z'' [q' [_ [_ [_ [_ Hl]]]]]].
  destruct (stake_per_epoch_ok e He) as [q'' [_ [_ Hst]]].
  rewrite Hz, Hq, Hp, Hs, Hl, Hst. repeat split; discriminate.
Qed.

(* the shares of one epoch add up to at most the epoch's emission *)
Lemma shares_le z p1 p2 p3 p4 m :
  0 <= z -> 0 <= p1 -> 0 <= p2 -> 0 <= p3 -> 0 <= p4 -> p1 + p2 + p3 + p4 <= 100 -> 0 < m ->
  (z * p1 / 100 / m + z * p2 / 100 / m) * m + z * p3 / 100 + z * p4 / 100 <= z.
Proof.
  intros Hz H1 H2 H3 H4 Hs Hm.
  assert (A : z * p1 + z * p2 + z * p3 + z * p4 <= z * 100) by nia.
  assert (0 <= z * p1) by nia. assert (0 <= z * p2) by nia. assert (0 <= z * p3) by nia. assert (0 <= z * p4) by nia.
  remember (z * p1) as a1. remember (z * p2) as a2. remember (z * p3) as a3. remember (z * p4) as a4.
  assert (B1 : a1 / 100 / m * m <= a1 / 100) by (rewrite Z.mul_comm; apply Z.mul_div_le; lia).
  assert (B2 : a2 / 100 / m * m <= a2 / 100) by (rewrite Z.mul_comm; apply Z.mul_div_le; lia).
  rewrite Z.mul_add_distr_r. lia.
Qed.

Lemma emission_split e : 0 <= e < two64 ->
  exists z q d b sz sq lz lq st,
    NetworkZnnRewardPerEpoch e = Ok z /\ NetworkQsrRewardPerEpoch e = Ok q /\
    PillarRewardPerMomentum e = Ok (d, b) /\ SentinelRewardForEpoch e = Ok (sz, sq) /\
    LiquidityRewardForEpoch e = Ok (lz, lq) /\ StakeQsrRewardPerEpoch e = Ok st /\
    0 <= d /\ 0 <= b /\ 0 <= sz /\ 0 <= sq /\ 0 <= lz /\ 0 <= lq /\ 0 <= st /\
    (d + b) * MomentumsPerEpoch + sz + lz <= z /\
    st + sq + lq <= q.
Proof.
  intros He.
  destruct (pillar_per_momentum_ok e He) as [z [Hz [Hzr Hp]]].
  destruct (sentinel_for_epoch_ok e He) as [z' [q [Hz' [Hq [_ [Hqr Hs]]]]]].
  destruct (liquidity_for_epoch_ok e He) as [z'' [q' [Hz'' [Hq' [_ [_ Hl]]]]]].
  destruct (stake_per_epoch_ok e He) as [q'' [Hq'' [_ Hst]]].
  assert (z' = z) by congruence. assert (z'' = z) by congruence.
  assert (q' = q) by congruence. assert (q'' = q) by congruence. subst.
  pose proof znn_percentages as Pz. pose proof qsr_percentages as Pq. pose proof mpe_ok as Hm.
  eexists z, q, _, _, _, _, _, _, _.
  split; [exact Hz|]. split; [exact Hq|]. split; [exact Hp|]. split; [exact Hs|]. split; [exact Hl|]. split; [exact Hst|].
  assert (N : forall a p, 0 <= a -> 0 <= p -> 0 <= a * p / 100) by (intros; apply Z.div_pos; nia).
  assert (N' : forall a, 0 <= a -> 0 <= a / MomentumsPerEpoch) by (intros; apply Z.div_pos; lia).
  repeat split; try (apply N; lia); try (apply N'; apply N; lia).
  - apply shares_le; lia.
  - assert (A : q * StakingQsrRewardPercentage + q * SentinelQsrRewardPercentage + q * LiquidityQsrRewardPercentage <= q * 100) by nia.
    assert (0 <= q * StakingQsrRewardPercentage) by nia.
    assert (0 <= q * SentinelQsrRewardPercentage) by nia.
    assert (0 <= q * LiquidityQsrRewardPercentage) by nia.
    remember (q * StakingQsrRewardPercentage) as a1. remember (q * SentinelQsrRewardPercentage) as a2.
    remember (q * LiquidityQsrRewardPercentage) as a3. lia.
Qed.

(* ------------------------------------------------------------------ sums and the pro-rata split *)

Lemma zsum_app a b : zsum (a ++ b) = zsum a + zsum b.
Proof. induction a as [|x a IH]; cbn [zsum app fold_right] in *; [reflexivity|]. fold (zsum (a ++ b)). fold (zsum a). lia. Qed.
Lemma zsum_cons x l : zsum (x :: l) = x + zsum l.
Proof. reflexivity. Qed.
Lemma zsum_nonneg l : Forall (fun x => 0 <= x) l -> 0 <= zsum l.
Proof. induction 1 as [|x l Hx _ IH]; [cbn; lia|]. rewrite zsum_cons. lia. Qed.
Lemma zsum_map_le {A} (f g : A -> Z) l : (forall x, In x l -> f x <= g x) -> zsum (map f l) <= zsum (map g l).
Proof.
  induction l as [|x l IH]; intros H; [cbn; lia|]. cbn [map]. rewrite !zsum_cons.
  specialize (H x (or_introl eq_refl)) as Hx. assert (zsum (map f l) <= zsum (map g l)) by (apply IH; intros; apply H; right; assumption). lia.
Qed.

Lemma div_add_ge a b W : 0 < W -> a / W + b / W <= (a + b) / W.
Proof.
  intros HW. apply Z.div_le_lower_bound; [lia|].
  pose proof (Z.mul_div_le a W HW). pose proof (Z.mul_div_le b W HW). lia.
Qed.

Lemma sum_div_le (l : list Z) W : 0 < W -> zsum (map (fun a => a / W) l) <= zsum l / W.
Proof.
  intros HW. induction l as [|a l IH]; [cbn [map zsum fold_right]; apply Z.div_pos; lia|].
  cbn [map]. rewrite !zsum_cons. pose proof (div_add_ge a (zsum l) W HW). lia.
Qed.

Lemma zsum_map_mul t l : zsum (map (fun w => t * w) l) = t * zsum l.
Proof. induction l as [|a l IH]; [cbn; lia|]. cbn [map]. rewrite !zsum_cons, IH. lia. Qed.

(* sum_i floor(total * w_i / W) <= floor(total * sum_i w_i / W) *)
Lemma prorata_le total (ws : list Z) W : 0 < W ->
  zsum (map (fun w => (total * w) / W) ws) <= (total * zsum ws) / W.
Proof.
  intros HW.
  replace (map (fun w => total * w / W) ws) with (map (fun a => a / W) (map (fun w => total * w) ws))
    by (rewrite map_map; reflexivity).
  rewrite <- zsum_map_mul. apply sum_div_le. exact HW.
Qed.

Lemma quot_nonneg_div a b : 0 <= a -> 0 < b -> Z.quot a b = a / b.
Proof. intros. apply Z.quot_div_nonneg; lia. Qed.

(* the general statement: a pro-rata split with non-negative weights never hands out more than the total *)
Lemma split_bounded total ws :
  0 <= total -> Forall (fun w => 0 <= w) ws -> 0 < zsum ws -> zsum (split total ws) <= total.
Proof.
  intros Ht Hw HW. unfold split.
  assert (E : zsum (map (fun w => Z.quot (total * w) (zsum ws)) ws) = zsum (map (fun w => (total * w) / zsum ws) ws)).
  { f_equal. apply map_ext_in. intros w Hin. rewrite Forall_forall in Hw. specialize (Hw w Hin).
    apply quot_nonneg_div; nia. }
  rewrite E. pose proof (prorata_le total ws (zsum ws) HW) as H.
  rewrite Z.div_mul in H by lia. exact H.
Qed.
Lemma split_nonneg total ws :
  0 <= total -> Forall (fun w => 0 <= w) ws -> 0 < zsum ws -> Forall (fun x => 0 <= x) (split total ws).
Proof.
  intros Ht Hw HW. unfold split. apply Forall_forall. intros x Hin. apply in_map_iff in Hin.
  destruct Hin as [w [<- Hin]]. rewrite Forall_forall in Hw. specialize (Hw w Hin).
  rewrite quot_nonneg_div by nia. apply Z.div_pos; nia.
Qed.

(* ------------------------------------------------------------------ picking entries of a keyed list *)

Section Pick.
  Context {A : Type} (key : A -> Z) (f : A -> Z).
  Definition pick (items : list A) (k : Z) : Z :=
    match find (fun i => key i =? k) items with Some i => f i | None => 0 end.

  Lemma pick_nonneg items k : (forall i, In i items -> 0 <= f i) -> 0 <= pick items k.
  Proof.
    intros H. unfold pick. destruct (find (fun i => key i =? k) items) eqn:E; [|lia].
    apply find_some in E. apply H. tauto.
  Qed.

  Lemma zsum_if_notin c x (g : Z -> Z) ks : ~ In c ks ->
    zsum (map (fun k => if c =? k then x else g k) ks) = zsum (map g ks).
  Proof.
    intros Hn. f_equal. apply map_ext_in. intros k Hk. destruct (c =? k) eqn:E; [|reflexivity].
    exfalso. apply Hn. assert (c = k) by lia. subst. exact Hk.
  Qed.

  Lemma zsum_if_le c x (g : Z -> Z) ks : NoDup ks -> 0 <= x -> (forall k, 0 <= g k) ->
    zsum (map (fun k => if c =? k then x else g k) ks) <= x + zsum (map g ks).
  Proof.
    intros Hnd Hx Hg. induction Hnd as [|k ks Hnin Hnd IH]; [cbn; lia|].
    cbn [map]. rewrite !zsum_cons. destruct (c =? k) eqn:E.
    - assert (c = k) by lia. subst. rewrite zsum_if_notin by exact Hnin. specialize (Hg k). lia.
    - lia.
  Qed.

  Lemma pick_sum_le items : forall ks, NoDup ks -> (forall i, In i items -> 0 <= f i) ->
    zsum (map (pick items) ks) <= zsum (map f items).
  Proof.
    induction items as [|a items IH]; intros ks Hnd Hf.
    - unfold pick. cbn [find map]. clear. induction ks as [|k ks IH]; [cbn; lia|]. cbn [map]. rewrite zsum_cons. cbn [map zsum fold_right] in *. lia.
    - cbn [map]. rewrite zsum_cons.
      assert (E : map (pick (a :: items)) ks = map (fun k => if key a =? k then f a else pick items k) ks).
      { apply map_ext. intros k. unfold pick. cbn [find]. destruct (key a =? k); reflexivity. }
      rewrite E.
      assert (Hf' : forall i, In i items -> 0 <= f i) by (intros; apply Hf; right; assumption).
      pose proof (zsum_if_le (key a) (f a) (pick items) ks Hnd (Hf a (or_introl eq_refl)) (fun k => pick_nonneg items k Hf')).
      specialize (IH ks Hnd Hf'). lia.
  Qed.
End Pick.

(* ------------------------------------------------------------------ pillars *)

Definition stats_wf (st : estats) : Prop :=
  NoDup (map ps_name (es_pillars st)) /\
  Forall (fun p => 0 <= ps_produced p <= ps_expected p /\ 0 <= ps_weight p) (es_pillars st) /\
  zsum (map ps_weight (es_pillars st)) <= es_total_weight st /\
  zsum (map ps_expected (es_pillars st)) < two64.
Definition infos_wf (infos : list pinfo) : Prop :=
  NoDup (map pi_name infos) /\ Forall (fun i => 0 <= pi_give_block i /\ 0 <= pi_give_deleg i) infos.
Definition details_wf (ds : list pdetail) : Prop :=
  NoDup (map pd_name ds) /\ Forall (fun d => Forall (fun ba => 0 <= snd ba) (pd_backers d)) ds.

(* the reward of one pillar once the per-momentum amounts (d, b) are known *)
Definition rw (st : estats) (d b : Z) (p : pstat) : preward :=
  if ps_expected p =? 0 then mkPreward 0 0 0 else
  let deleg := if Z.sgn (es_total_weight st) =? 0 then 0
               else Z.quot (Z.quot (d * ps_produced p * ps_weight p * total_expected st) (ps_expected p))
                           (es_total_weight st) in
  mkPreward deleg (b * ps_produced p) (b * ps_produced p + deleg).

Lemma pillar_reward_rw st d b p :
  PillarRewardPerMomentum (es_epoch st) = Ok (d, b) -> pillar_reward st p = Ok (rw st d b p).
Proof.
  intros H. unfold pillar_reward, rw. destruct (ps_expected p =? 0); [reflexivity|].
  rewrite H. cbn [bind fst snd]. reflexivity.
Qed.
Lemma pillar_rewards_of_rw st d b ps :
  PillarRewardPerMomentum (es_epoch st) = Ok (d, b) ->
  pillar_rewards_of st ps = Ok (map (fun p => (ps_name p, rw st d b p)) ps).
Proof.
  intros H. induction ps as [|p ps IH]; [reflexivity|].
  cbn [pillar_rewards_of map]. rewrite (pillar_reward_rw st d b p H). cbn [bind]. rewrite IH. reflexivity.
Qed.

Lemma expected_sum_nonneg ps :
  Forall (fun p => 0 <= ps_produced p <= ps_expected p /\ 0 <= ps_weight p) ps ->
  0 <= zsum (map ps_expected ps) /\ 0 <= zsum (map ps_weight ps) /\
  zsum (map ps_produced ps) <= zsum (map ps_expected ps).
Proof.
  induction 1 as [|p ps Hp _ IH]; [cbn; lia|]. cbn [map]. rewrite !zsum_cons. lia.
Qed.

Lemma total_expected_eq st : stats_wf st ->
  total_expected st = zsum (map ps_expected (es_pillars st)) /\ 0 <= total_expected st.
Proof.
  intros [_ [Hf [_ Hlt]]]. destruct (expected_sum_nonneg _ Hf) as [H0 _].
  unfold total_expected, u64. rewrite Z.mod_small by lia. lia.
Qed.

(* bounds on one pillar's reward *)
Lemma rw_bounds st d b p : 0 <= d -> 0 <= b -> 0 <= total_expected st ->
  0 <= ps_produced p <= ps_expected p -> 0 <= ps_weight p -> 0 <= es_total_weight st ->
  0 <= pr_deleg (rw st d b p) /\ 0 <= pr_block (rw st d b p) /\
  pr_total (rw st d b p) = pr_block (rw st d b p) + pr_deleg (rw st d b p) /\
  pr_block (rw st d b p) = b * ps_produced p /\
  (0 < es_total_weight st -> pr_deleg (rw st d b p) <= (d * total_expected st * ps_weight p) / es_total_weight st) /\
  (es_total_weight st = 0 -> pr_deleg (rw st d b p) = 0).
Proof.
  intros Hd Hb HT Hp Hw HTW. unfold rw. set (T := total_expected st) in *.
  destruct (ps_expected p =? 0) eqn:E0.
  - assert (ps_produced p = 0) by lia. cbn [pr_deleg pr_block pr_total].
    repeat split; try lia. intros HTW'. apply Z.div_pos; nia.
  - cbn [pr_deleg pr_block pr_total].
    destruct (Z.sgn (es_total_weight st) =? 0) eqn:E1.
    + assert (es_total_weight st = 0) by lia. repeat split; try lia; nia.
    + assert (HTWp : 0 < es_total_weight st) by lia.
      assert (HE : 0 < ps_expected p) by lia.
      assert (Hn : 0 <= d * ps_produced p * ps_weight p * T) by (repeat apply Z.mul_nonneg_nonneg; lia).
      rewrite (quot_nonneg_div _ (ps_expected p)) by lia.
      assert (Hq0 : 0 <= d * ps_produced p * ps_weight p * T / ps_expected p) by (apply Z.div_pos; lia).
      rewrite quot_nonneg_div by lia.
      assert (Hq1 : d * ps_produced p * ps_weight p * T / ps_expected p <= d * T * ps_weight p).
      { apply Z.div_le_upper_bound; [lia|].
        assert (0 <= d * T * ps_weight p) by (repeat apply Z.mul_nonneg_nonneg; lia).
        replace (d * ps_produced p * ps_weight p * T) with ((d * T * ps_weight p) * ps_produced p) by ring.
        remember (d * T * ps_weight p) as X. nia. }
      split; [apply Z.div_pos; lia|]. split; [nia|]. split; [reflexivity|]. split; [reflexivity|].
      split; [intros _; apply Z.div_le_mono; lia | intros; lia].
Qed.

(* sum over all pillars of the epoch *)
Lemma rw_sum_le st d b : stats_wf st -> 0 <= d -> 0 <= b ->
  zsum (map (fun p => pr_total (rw st d b p)) (es_pillars st)) <= (d + b) * total_expected st.
Proof.
  intros Hwf Hd Hb. destruct (total_expected_eq st Hwf) as [HTe HT0].
  destruct Hwf as [_ [Hf [HW Hlt]]].
  destruct (expected_sum_nonneg _ Hf) as [He0 [Hw0 Hpe]].
  assert (HTW : 0 <= es_total_weight st) by lia.
  set (T := total_expected st) in *.
  (* block part and delegation part separately *)
  assert (HB : zsum (map (fun p => pr_block (rw st d b p)) (es_pillars st)) <= b * T).
  { rewrite HTe. clear HTe Hlt HW He0 Hw0 Hpe.
    induction Hf as [|p ps Hp Hf IH]; [cbn; lia|]. cbn [map]. rewrite !zsum_cons.
    destruct (rw_bounds st d b p Hd Hb HT0 (proj1 Hp) (proj2 Hp) HTW) as [_ [_ [_ [Hbl _]]]].
    fold T in Hbl. rewrite Hbl. nia. }
  assert (HD : zsum (map (fun p => pr_deleg (rw st d b p)) (es_pillars st)) <= d * T).
  { destruct (Z.eq_dec (es_total_weight st) 0) as [Hz|Hnz].
    - assert (zsum (map (fun p => pr_deleg (rw st d b p)) (es_pillars st)) = 0); [|nia].
      clear HB HTe Hlt HW He0 Hw0 Hpe. induction Hf as [|p ps Hp Hf IH]; [reflexivity|]. cbn [map]. rewrite zsum_cons.
      destruct (rw_bounds st d b p Hd Hb HT0 (proj1 Hp) (proj2 Hp) HTW) as [_ [_ [_ [_ [_ Hz0]]]]].
      rewrite (Hz0 Hz), IH. reflexivity.
    - assert (HTWp : 0 < es_total_weight st) by lia.
      assert (H1 : zsum (map (fun p => pr_deleg (rw st d b p)) (es_pillars st)) <=
                   zsum (map (fun w => (d * T * w) / es_total_weight st) (map ps_weight (es_pillars st)))).
      { rewrite map_map. apply zsum_map_le. intros p Hin. rewrite Forall_forall in Hf. specialize (Hf p Hin).
        destruct (rw_bounds st d b p Hd Hb HT0 (proj1 Hf) (proj2 Hf) HTW) as [_ [_ [_ [_ [Hdl _]]]]].
        apply Hdl. exact HTWp. }
      pose proof (prorata_le (d * T) (map ps_weight (es_pillars st)) (es_total_weight st) HTWp) as H2.
      assert (H3 : d * T * zsum (map ps_weight (es_pillars st)) / es_total_weight st <= d * T).
      { apply Z.div_le_upper_bound; [lia|]. assert (0 <= d * T) by nia. nia. }
      lia. }
  assert (HS : zsum (map (fun p => pr_total (rw st d b p)) (es_pillars st)) =
               zsum (map (fun p => pr_block (rw st d b p)) (es_pillars st)) +
               zsum (map (fun p => pr_deleg (rw st d b p)) (es_pillars st))).
  { clear HB HD HTe Hlt HW He0 Hw0 Hpe. induction Hf as [|p ps Hp Hf IH]; [reflexivity|]. cbn [map]. rewrite !zsum_cons.
    destruct (rw_bounds st d b p Hd Hb HT0 (proj1 Hp) (proj2 Hp) HTW) as [_ [_ [Ht _]]]. lia. }
  lia.
Qed.

(* the amount handed to backers of one pillar *)
Definition tgv (rs : list (Z * preward)) (i : pinfo) : Z :=
  match lookup (pi_name i) rs with Some r => to_give i r | None => 0 end.
Definition totv (rs : list (Z * preward)) (i : pinfo) : Z :=
  match lookup (pi_name i) rs with Some r => pr_total r | None => 0 end.

Lemma credits_a_sum rs infos :
  zsum (map snd (credits_a rs infos)) = zsum (map (fun i => totv rs i - tgv rs i) infos).
Proof.
  unfold credits_a, totv, tgv. induction infos as [|i infos IH]; [reflexivity|].
  cbn [flat_map map]. rewrite map_app, zsum_app, zsum_cons, IH.
  destruct (lookup (pi_name i) rs); cbn; lia.
Qed.

Lemma lookup_app_nil {A} k (l : list (Z * A)) : lookup k ([] ++ l) = lookup k l.
Proof. reflexivity. Qed.

Lemma pick_none_zero rs infos k : lookup k rs = None -> pick pi_name (tgv rs) infos k = 0.
Proof.
  intros Hn. unfold pick. destruct (find (fun i => pi_name i =? k) infos) eqn:E; [|reflexivity].
  apply find_some in E. destruct E as [_ E]. assert (pi_name p = k) by lia. unfold tgv. rewrite H, Hn. reflexivity.
Qed.

Lemma lookup_togive rs infos k tb :
  lookup k (togive_map rs infos) = Some tb -> tb = pick pi_name (tgv rs) infos k.
Proof.
  induction infos as [|i infos IH]; [discriminate|].
  unfold togive_map. cbn [flat_map]. fold (togive_map rs infos).
  unfold pick. cbn [find]. destruct (pi_name i =? k) eqn:E.
  - assert (Hk : pi_name i = k) by lia.
    destruct (lookup (pi_name i) rs) eqn:L.
    + unfold lookup at 1. cbn [app find fst]. rewrite E. cbn [snd]. intros H. inversion H. unfold tgv. rewrite L. reflexivity.
    + cbn [app]. intros H. specialize (IH H). rewrite Hk in L. rewrite (pick_none_zero rs infos k L) in IH.
      unfold tgv. rewrite Hk, L. exact IH.
  - destruct (lookup (pi_name i) rs) eqn:L.
    + unfold lookup at 1. cbn [app find fst]. rewrite E. intros H. apply IH. exact H.
    + cbn [app]. intros H. apply IH. exact H.
Qed.

Lemma quot_share_sum_le tb (bs : list (Z * Z)) :
  0 <= tb -> Forall (fun ba => 0 <= snd ba) bs -> zsum (map snd bs) <> 0 ->
  zsum (map snd (map (fun ba => (fst ba, Z.quot (tb * snd ba) (zsum (map snd bs)))) bs)) <= tb.
Proof.
  intros Ht Hb Hnz.
  assert (Hws : Forall (fun w => 0 <= w) (map snd bs)).
  { apply Forall_forall. intros w Hin. apply in_map_iff in Hin. destruct Hin as [ba [<- Hin]].
    rewrite Forall_forall in Hb. apply Hb. exact Hin. }
  pose proof (zsum_nonneg _ Hws).
  pose proof (split_bounded tb (map snd bs) Ht Hws ltac:(lia)) as H1.
  unfold split in H1. rewrite !map_map in *. cbn [snd]. exact H1.
Qed.

Lemma credits_detail_le rs infos d cs :
  (forall i, In i infos -> 0 <= tgv rs i) -> Forall (fun ba => 0 <= snd ba) (pd_backers d) ->
  credits_detail (togive_map rs infos) infos d = Some cs ->
  zsum (map snd cs) <= pick pi_name (tgv rs) infos (pd_name d).
Proof.
  intros Hnn Hb. unfold credits_detail.
  destruct (lookup (pd_name d) (togive_map rs infos)) as [tb|] eqn:L; [|discriminate].
  apply lookup_togive in L.
  assert (Htb : 0 <= tb) by (rewrite L; apply pick_nonneg; exact Hnn).
  destruct (zsum (map snd (pd_backers d)) =? 0) eqn:E0.
  - destruct (find (fun i => pi_name i =? pd_name d) infos); intros H; inversion H; cbn; lia.
  - intros H. inversion H. subst cs. rewrite <- L. apply quot_share_sum_le; [lia|exact Hb|lia].
Qed.

Lemma credits_b_le rs infos ds cb :
  (forall i, In i infos -> 0 <= tgv rs i) ->
  Forall (fun d => Forall (fun ba => 0 <= snd ba) (pd_backers d)) ds ->
  credits_b (togive_map rs infos) infos ds = Some cb ->
  zsum (map snd cb) <= zsum (map (pick pi_name (tgv rs) infos) (map pd_name ds)).
Proof.
  intros Hnn Hb. revert cb. induction Hb as [|d ds Hd Hds IH]; intros cb.
  - cbn. intros H. inversion H. cbn. lia.
  - cbn [credits_b map]. destruct (credits_detail (togive_map rs infos) infos d) as [a|] eqn:E1; [|discriminate].
    destruct (credits_b (togive_map rs infos) infos ds) as [b|] eqn:E2; [|discriminate].
    intros H. inversion H. subst cb. rewrite map_app, zsum_app, zsum_cons.
    pose proof (credits_detail_le rs infos d a Hnn Hd E1). specialize (IH b eq_refl). lia.
Qed.

Lemma to_give_nonneg i r : 0 <= pi_give_block i -> 0 <= pi_give_deleg i -> 0 <= pr_block r -> 0 <= pr_deleg r ->
  0 <= to_give i r.
Proof.
  intros. unfold to_give. rewrite big100_ok. rewrite quot_nonneg_div by nia. apply Z.div_pos; nia.
Qed.

Lemma lookup_rs_in st d b ps k r :
  lookup k (map (fun p => (ps_name p, rw st d b p)) ps) = Some r -> exists p, In p ps /\ r = rw st d b p.
Proof.
  unfold lookup. destruct (find _ _) as [kv|] eqn:E; [|discriminate].
  apply find_some in E. destruct E as [Hin _]. apply in_map_iff in Hin. destruct Hin as [p [<- Hp]].
  intros H. inversion H. exists p. split; [exact Hp|reflexivity].
Qed.

Lemma totv_is_pick rs i : totv rs i = pick fst (fun kv => pr_total (snd kv)) rs (pi_name i).
Proof. unfold totv, lookup, pick. destruct (find _ rs); reflexivity. Qed.

Theorem pillar_bounded st infos ds d b cs :
  stats_wf st -> infos_wf infos -> details_wf ds ->
  PillarRewardPerMomentum (es_epoch st) = Ok (d, b) -> 0 <= d -> 0 <= b ->
  detailed_pillar_reward st infos ds = Done cs ->
  zsum (map snd cs) <= (d + b) * total_expected st.
Proof.
  intros Hst [Hind Hif] [Hdnd Hdf] Hp Hd Hb.
  unfold detailed_pillar_reward, pillar_rewards. rewrite (pillar_rewards_of_rw st d b _ Hp).
  set (rs := map (fun p => (ps_name p, rw st d b p)) (es_pillars st)).
  destruct (negb _); [discriminate|].
  destruct (credits_b (togive_map rs infos) infos ds) as [cb|] eqn:Ecb; [|discriminate].
  intros H. inversion H. subst cs. clear H.
  destruct (total_expected_eq st Hst) as [_ HT0].
  assert (HTW : 0 <= es_total_weight st).
  { destruct Hst as [_ [Hf [HW _]]]. destruct (expected_sum_nonneg _ Hf) as [_ [Hw0 _]]. lia. }
  (* every reward in rs is well-behaved *)
  assert (Hrs : forall k r, lookup k rs = Some r -> 0 <= pr_deleg r /\ 0 <= pr_block r /\ 0 <= pr_total r).
  { intros k r L. apply lookup_rs_in in L. destruct L as [p [Hin ->]].
    destruct Hst as [_ [Hf _]]. rewrite Forall_forall in Hf. specialize (Hf p Hin).
    destruct (rw_bounds st d b p Hd Hb HT0 (proj1 Hf) (proj2 Hf) HTW) as [A [B [C _]]]. lia. }
  assert (Hnn : forall i, In i infos -> 0 <= tgv rs i).
  { intros i Hin. unfold tgv. destruct (lookup (pi_name i) rs) eqn:L; [|lia].
    rewrite Forall_forall in Hif. specialize (Hif i Hin). destruct (Hrs _ _ L) as [A [B _]].
    apply to_give_nonneg; lia. }
  rewrite map_app, zsum_app, credits_a_sum.
  pose proof (credits_b_le rs infos ds cb Hnn Hdf Ecb) as HB.
  pose proof (pick_sum_le pi_name (tgv rs) infos (map pd_name ds) Hdnd Hnn) as HB2.
  assert (HA : zsum (map (fun i => totv rs i - tgv rs i) infos) = zsum (map (totv rs) infos) - zsum (map (tgv rs) infos)).
  { clear. induction infos as [|i infos IH]; [reflexivity|]. cbn [map]. rewrite !zsum_cons. lia. }
  assert (HT : zsum (map (totv rs) infos) <= zsum (map (fun kv => pr_total (snd kv)) rs)).
  { replace (map (totv rs) infos) with (map (pick fst (fun kv => pr_total (snd kv)) rs) (map pi_name infos)).
    - apply pick_sum_le; [exact Hind|]. intros kv Hin. unfold rs in Hin. apply in_map_iff in Hin.
      destruct Hin as [p [<- Hin]]. cbn [snd].
      destruct Hst as [_ [Hf _]]. rewrite Forall_forall in Hf. specialize (Hf p Hin).
      destruct (rw_bounds st d b p Hd Hb HT0 (proj1 Hf) (proj2 Hf) HTW) as [A [B [C _]]]. lia.
    - rewrite map_map. apply map_ext. intros i. symmetry. apply totv_is_pick. }
  assert (HR : zsum (map (fun kv => pr_total (snd kv)) rs) = zsum (map (fun p => pr_total (rw st d b p)) (es_pillars st))).
  { unfold rs. rewrite map_map. reflexivity. }
  pose proof (rw_sum_le st d b Hst Hd Hb). lia.
Qed.

(* with one momentum slot per MomentumsPerEpoch the pillar contract stays inside its share of the emission *)
Corollary pillar_bounded_24h st infos ds cs z :
  stats_wf st -> infos_wf infos -> details_wf ds -> 0 <= es_epoch st < two64 ->
  total_expected st <= MomentumsPerEpoch ->
  NetworkZnnRewardPerEpoch (es_epoch st) = Ok z ->
  detailed_pillar_reward st infos ds = Done cs ->
  zsum (map snd cs) <= z * (DelegationZnnRewardPercentage + MomentumProducingZnnRewardPercentage) / 100.
Proof.
  intros Hst Hi Hd He HT Hz H.
  destruct (pillar_per_momentum_ok _ He) as [z' [Hz' [Hzr Hp]]]. assert (z' = z) by congruence. subst z'.
  pose proof znn_percentages as Pz. pose proof mpe_ok as Hm.
  assert (N : forall p, 0 <= p -> 0 <= z * p / 100 / MomentumsPerEpoch).
  { intros. apply Z.div_pos; [|lia]. apply Z.div_pos; nia. }
  destruct (total_expected_eq st Hst) as [_ HT0].
  set (d := z * DelegationZnnRewardPercentage / 100 / MomentumsPerEpoch) in *.
  set (b := z * MomentumProducingZnnRewardPercentage / 100 / MomentumsPerEpoch) in *.
  assert (Hd0 : 0 <= d) by (apply N; lia). assert (Hb0 : 0 <= b) by (apply N; lia).
  pose proof (pillar_bounded st infos ds d b cs Hst Hi Hd Hp Hd0 Hb0 H) as HB.
  assert (H1 : (d + b) * total_expected st <= (d + b) * MomentumsPerEpoch) by nia.
  assert (H2 : d * MomentumsPerEpoch <= z * DelegationZnnRewardPercentage / 100).
  { unfold d. rewrite Z.mul_comm. apply Z.mul_div_le. lia. }
  assert (H3 : b * MomentumsPerEpoch <= z * MomentumProducingZnnRewardPercentage / 100).
  { unfold b. rewrite Z.mul_comm. apply Z.mul_div_le. lia. }
  assert (H4 : z * DelegationZnnRewardPercentage / 100 + z * MomentumProducingZnnRewardPercentage / 100
               <= z * (DelegationZnnRewardPercentage + MomentumProducingZnnRewardPercentage) / 100).
  { rewrite Z.mul_add_distr_l. apply div_add_ge. lia. }
  nia.
Qed.
