(* Crash model of the versioned store (C08). What survives a crash is the leveldb content (frontier
   sub-database, redo and undo patches); the overlay caches and all open views are volatile. After the fix in
   /repo, ldbManager.Add and Pop issue exactly ONE leveldb write (a batch); goleveldb's batch atomicity is the
   trusted assumption, checked against the real storage by fault injection in harness/cmd/c07/crash.go. *)
From ZV Require Import Prelude.
From stdpp Require Import gmap.
From ZV Require Import Store.
Open Scope Z_scope.

Definition durable (m : mgr) : mgr := mgr_evict m.

(* the successive durable states an operation goes through: one entry per write to the database *)
Definition add_writes (m : mgr) (prev cid : list Z * Z) (data : list Z) (p : list pop) : list mgr :=
  match mgr_add m prev cid data p with
  | ROk m' _ => if ident_eqb prev (frontier_id (m_front m)) then [durable m'] else []
  | RPanic => []
  end.
Definition pop_writes (m : mgr) : list mgr :=
  match mgr_pop m with ROk m' _ => [durable m'] | RPanic => [] end.

(* state on disk when the process dies after k of the writes *)
Definition crash_after (m : mgr) (ws : list mgr) (k : nat) : mgr :=
  match k with O => durable m | S j => nth j ws (durable m) end.

(* The pre-fix code: redo put, undo put, then one put per patch entry (frontier keys last). *)
Fixpoint puts_from (F : gmap (list Z) (list Z)) (redo undo : gmap Z (list pop)) (p : list pop) : list mgr :=
  match p with
  | [] => []
  | o :: r => let F' := raw_apply1 F o in Mgr F' redo undo ∅ :: puts_from F' redo undo r
  end.
Definition add_writes_unbatched (m : mgr) (prev cid : list Z * Z) (data : list Z) (p : list pop) : list mgr :=
  let full := p ++ frontier_ops cid data in
  let undo := rollback_patch (fun k => dec (m_front m !! k)) full in
  let redo1 := <[snd cid := full]> (m_redo m) in
  let undo1 := <[snd cid := undo]> (m_undo m) in
  Mgr (m_front m) redo1 (m_undo m) ∅ :: Mgr (m_front m) redo1 undo1 ∅ :: puts_from (m_front m) redo1 undo1 full.

Global Instance pop_eq_dec : EqDecision pop.
Proof. solve_decision. Defined.
Global Instance mgr_eq_dec : EqDecision mgr.
Proof. solve_decision. Defined.

(* what the harness observes at a crash point: which of the two admissible states the reopened store is in *)
Definition crash_point_run (i : Z * Z * bool) : Z :=
  let '(total, k, torn) := i in
  (* the model issues exactly one write per commit / rollback *)
  if total =? 1 then (if (k =? 1) && negb torn then 1 else 0) else -1.
