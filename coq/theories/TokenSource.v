(* C01 — the two operations that change a token's recorded supply after its issue, proved DIRECTLY about the code:
   MintMethod.ReceiveBlock and BurnMethod.ReceiveBlock (vm/embedded/implementation/token.go), translated from /repo's
   source by go2coq on every run (gen/PureToken.v). Result: (descendant blocks as (ToAddress, Amount, TokenStandard),
   error, the written TotalSupply [and MaxSupply], effect Save on the token record, the amount handed to
   AddBalance / SubBalance of the token contract). Inputs (oracles): ValidateSendBlock / ABI verdicts, the token record
   read from storage, IsEmbeddedAddress of sender / receiver, results of Save and of packing the Donate call. *)
From ZV Require Import Prelude GoSem.
From ZV.gen Require Import Consts Pure PureToken.
Open Scope Z_scope.

Ltac split_ifs_t H :=
  repeat match type of H with
         | context [if ?c then _ else _] => let E := fresh "E" in destruct c eqn:E
         | context [guard ?c _] => let E := fresh "G" in destruct c eqn:E; cbn [guard] in H
         end.

Lemma zcmp_neg a b : (zcmp a b <? 0) = (a <? b).
Proof. unfold zcmp. destruct (a <? b) eqn:E; [reflexivity|]. destruct (a =? b); reflexivity. Qed.

Theorem mint_success total v u g mintable max amt zts embSender sv embRecv pe recv owner sender bl total' es eb :
  Mint_receive total v u g mintable max amt zts embSender sv embRecv pe recv owner sender = Ok (bl, 0, total', es, eb) ->
  bl = [(recv, amt, zts)] /\ total' = total + amt /\ total' <= max /\ mintable = true /\
  es = Some 1 /\ eb = Some amt /\
  ((zts = ZnnTokenStandard \/ zts = QsrTokenStandard) -> embSender = true) /\
  (zts <> ZnnTokenStandard -> zts <> QsrTokenStandard -> owner = sender).
Proof.
  unfold Mint_receive, Err_constants_ErrDataNonExistent, Err_constants_ErrPermissionDenied, Err_constants_ErrTokenInvalidAmount.
  cbv zeta. intros H. rewrite !zcmp_neg in H.
  split_ifs_t H; try discriminate; inversion H; subst; clear H;
    (repeat split; try reflexivity; try lia;
     try (destruct mintable; [reflexivity|discriminate]);
     try (intros; destruct embSender; [reflexivity|discriminate]);
     try (intros [?|?]; try lia; destruct embSender; [reflexivity|discriminate]);
     try (intros; lia)).
Qed.

(* total <= max is kept by a successful mint for a non-negative amount... and the record is only ever written on success
   (a failure of packing the Donate call comes after the write: the VM rolls the whole receive back, Ledger/VmReceive) *)
Theorem mint_refusal total v u g mintable max amt zts embSender sv embRecv recv owner sender bl e total' es eb :
  Mint_receive total v u g mintable max amt zts embSender sv embRecv 0 recv owner sender = Ok (bl, e, total', es, eb) -> e <> 0 ->
  bl = [] /\ total' = total /\ es = None /\ eb = None.
Proof.
  unfold Mint_receive. cbv zeta. intros H He.
  split_ifs_t H; try discriminate; inversion H; subst; try (exfalso; apply He; reflexivity); repeat split; reflexivity.
Qed.

Theorem burn_success total max v g burnable owner sender mintable amt sv bl total' max' es eb :
  Burn_receive total max v g burnable owner sender mintable amt sv = Ok (bl, 0, total', max', es, eb) ->
  bl = [] /\ total' = total - amt /\ max' = (if mintable then max else max - amt) /\
  (burnable = true \/ owner = sender) /\ es = Some 1 /\ eb = Some amt.
Proof.
  unfold Burn_receive, Err_constants_ErrDataNonExistent, Err_constants_ErrPermissionDenied. cbv zeta. intros H.
  split_ifs_t H; try discriminate; inversion H; subst; clear H;
    try (cbn in *; discriminate);
    destruct mintable; cbn [negb] in *; try discriminate;
    (repeat split; try reflexivity;
     try (destruct burnable; [left; reflexivity|right; cbn [negb andb] in *; lia])).
Qed.

Theorem burn_refusal total max v g burnable owner sender mintable amt sv bl e total' max' es eb :
  Burn_receive total max v g burnable owner sender mintable amt sv = Ok (bl, e, total', max', es, eb) -> e <> 0 ->
  bl = [] /\ total' = total /\ max' = max /\ es = None /\ eb = None.
Proof.
  unfold Burn_receive. cbv zeta. intros H He.
  split_ifs_t H; try discriminate; inversion H; subst; try (exfalso; apply He; reflexivity); repeat split; reflexivity.
Qed.

(* supply <= max supply is preserved by both, and what is credited to / debited from the token contract's balance is
   exactly the change of the recorded supply *)
Theorem mint_burn_keep_supply_within_max :
  (forall total v u g mintable max amt zts embSender sv embRecv pe recv owner sender bl total' es eb,
     Mint_receive total v u g mintable max amt zts embSender sv embRecv pe recv owner sender = Ok (bl, 0, total', es, eb) ->
     total' <= max /\ eb = Some (total' - total)) /\
  (forall total max v g burnable owner sender mintable amt sv bl total' max' es eb,
     Burn_receive total max v g burnable owner sender mintable amt sv = Ok (bl, 0, total', max', es, eb) ->
     0 <= amt -> total <= max -> total' <= max' /\ eb = Some (total - total')).
Proof.
  split.
  - intros. apply mint_success in H. destruct H as (_ & -> & Hm & _ & _ & -> & _). split; [exact Hm|f_equal; lia].
  - intros. apply burn_success in H. destruct H as (_ & -> & -> & _ & _ & ->). split; [destruct mintable; lia|f_equal; lia].
Qed.

Example token_examples :
  Mint_receive 100 0 0 0 true 150 50 77 false 0 false 0 9 5 5 = Ok ([(9, 50, 77)], 0, 150, Some 1, Some 50) /\
  Burn_receive 150 150 0 0 true 5 6 false 20 0 = Ok ([], 0, 130, 130, Some 1, Some 20).
Proof. split; reflexivity. Qed.
