(* C15 — the RLPx encryption handshake of a connection, decision part: what a node does with the FIRST message of a
   remote side that nobody has authenticated yet, on the listening side (auth message) and on the dialing side (auth
   response), followed by the protocol handshake over the negotiated secrets.
   Mirrors p2p/rlpx.go: receiverEncHandshake (io.ReadFull of encAuthMsgLen bytes), decodeAuthMsg (Decrypt, the slices of
   the plaintext, NodeID.Pubkey of the static key = the check that the 64 bytes are a curve point, ecdhShared,
   secp256k1.RecoverPubkey of the ephemeral key, authResp), initiatorEncHandshake / decodeAuthResp (io.ReadFull of
   encAuthRespLen bytes, Decrypt, the slices, importPublicKey + the curve-point check of the ephemeral key,
   encHandshake.secrets), then rlpxFrameRW.ReadMsg of the first frame (both MACs under the session secrets),
   readProtocolHandshake and the identity comparison of Server.setupConn (BaseMsg.setup_conn).
   The cryptography is an oracle: whether the ECIES envelope opens under the node's key, whether 64 bytes are a curve
   point, whether a public key can be recovered from the signature, whether the remote side's first frame verifies
   under the session secrets are INPUTS (the harness evaluates them independently on the bytes it sends).
   A public key whose coordinates the code does not check reaches ScalarMult with nil coordinates: a nil dereference,
   modelled as the explicit outcome EncPanic of the `_gen` variants with the check switched off. *)
From ZV Require Import Prelude GoSem BaseMsg.
From ZV.gen Require Import Consts.
Open Scope Z_scope.

Inductive enc_res :=
| EncRefused      (* error before anything is written: the connection is closed *)
| EncOk           (* listening side: the response has been written; both: session secrets derived *)
| EncPanic.

(* Go slice expression s[lo:hi] on a slice of length n *)
Definition slice_ok (n lo hi : Z) : bool := (0 <=? lo) && (lo <=? hi) && (hi <=? n).

(* listening side. got: bytes of the auth message that arrive before the remote side stops sending; dec_ok: the first
   encAuthMsgLen bytes are an ECIES message to the node's key; key_valid: the static key field is a curve point;
   sig_ok: a key is recovered from the signature field over token^nonce. key_checked: the code verifies the point *)
Definition recv_enc_gen (key_checked : bool) (got : Z) (dec_ok key_valid sig_ok : bool) : enc_res :=
  if got <? EncAuthMsgLen then EncRefused
  else if negb dec_ok then EncRefused
  else let plen := EncAuthMsgLen - EciesOverhead in
  if negb (slice_ok plen (AuthMsgLen - HsShaLen - 1) (AuthMsgLen - 1)
           && slice_ok plen (HsSigLen + HsShaLen) (HsSigLen + HsShaLen + HsPubLen)
           && slice_ok plen 0 HsSigLen) then EncPanic
  else if negb key_valid then (if key_checked then EncRefused else EncPanic)
  else if negb sig_ok then EncRefused
  else EncOk.
Definition recv_enc := recv_enc_gen true.

(* dialing side. got: bytes of the response that arrive; dec_ok: they open under the dialing node's key; eph_valid: the
   ephemeral key field is a curve point. eph_checked: the code verifies the point before encHandshake.secrets *)
Definition init_enc_gen (eph_checked : bool) (got : Z) (dec_ok eph_valid : bool) : enc_res :=
  if got <? EncAuthRespLen then EncRefused
  else if negb dec_ok then EncRefused
  else let plen := EncAuthRespLen - EciesOverhead in
  if negb (slice_ok plen HsPubLen (HsPubLen + HsShaLen) && slice_ok plen 0 HsPubLen) then EncPanic
  else if negb eph_valid then (if eph_checked then EncRefused else EncPanic)
  else EncOk.
Definition init_enc := init_enc_gen true.

(* the whole of setupConn for one connection (the server's peer set has room and does not know the identity) *)
Inductive conn_res :=
| CPeer
| CRefusedEnc     (* refused in the encryption handshake *)
| CRefusedProto   (* refused after it: first frame, protocol handshake, identity *)
| CPanic.

(* mac_ok: the first frame the node reads verifies under the session secrets (the remote side knows them and sends
   nothing in between); then the hello: size, code, payload, and what rlp makes of it *)
Definition after_enc (mac_ok : bool) (size code : Z) (p : bytes) (decodes : bool) (version : Z) (id_zero id_match : bool) : conn_res :=
  if negb mac_ok then CRefusedProto
  else match setup_conn true size code p decodes version id_zero id_match true with
       | SAdded => CPeer
       | SRefused _ => CRefusedProto
       | SPanic => CPanic
       end.

Definition listen_conn_gen (chk : bool) (got : Z) (dec_ok key_valid sig_ok mac_ok : bool)
    (size code : Z) (p : bytes) (decodes : bool) (version : Z) (id_zero id_match : bool) : conn_res :=
  match recv_enc_gen chk got dec_ok key_valid sig_ok with
  | EncRefused => CRefusedEnc
  | EncPanic => CPanic
  | EncOk => after_enc mac_ok size code p decodes version id_zero id_match
  end.
Definition listen_conn := listen_conn_gen true.

Definition dial_conn_gen (chk : bool) (got : Z) (dec_ok eph_valid mac_ok : bool)
    (size code : Z) (p : bytes) (decodes : bool) (version : Z) (id_zero id_match : bool) : conn_res :=
  match init_enc_gen chk got dec_ok eph_valid with
  | EncRefused => CRefusedEnc
  | EncPanic => CPanic
  | EncOk => after_enc mac_ok size code p decodes version id_zero id_match
  end.
Definition dial_conn := dial_conn_gen true.
