(* Model of the glue in /repo/wallet: keyfile.go (ReadKeyFile checks, Write, Decrypt), keystore.go
   (keyStoreFromEntropy, Encrypt, DeriveForIndexPath), crypto.go (fixed additional data), derivation.go
   (path grammar, ParseUint 32, hardened offset in uint32, SLIP-0010 chain), keypair.go, and
   common/types/address.go PubKeyToAddress.
   Cryptography is NOT modelled: argon2id, AES-GCM, bip39, HMAC-SHA512, ed25519 and SHA3 are parameters;
   only functional laws about them are ever assumed (Section hypotheses in WalletProofs.v).
   Text is a list of character codes; byte strings in the key file are hexutil.Bytes ("0x" + lower-case hex). *)
From ZV Require Import Prelude Dec.
Open Scope Z_scope.

(* ---------------------------------------------------------------- hexutil.Bytes *)
Definition hexutil_enc (b : bytes) : bytes := 48 :: 120 :: hex_enc b.           (* "0x…" *)
(* UnmarshalText: the empty text is allowed; otherwise the 0x prefix (0X is accepted as well) and an even
   number of hex digits *)
Definition hexutil_dec (s : bytes) : option bytes :=
  match s with
  | [] => Some []
  | 48 :: x :: r => if (x =? 120) || (x =? 88) then hex_dec r else None
  | _ => None
  end.

(* ---------------------------------------------------------------- key file *)
Definition aes_mode : bytes := [97;101;115;45;50;53;54;45;103;99;109].            (* "aes-256-gcm" *)
Definition argon_name : bytes := [97;114;103;111;110;50;46;73;68;75;101;121].    (* "argon2.IDKey" *)
Definition gcm_aad : bytes := [122;101;110;111;110].                              (* "zenon" *)
Definition store_version : Z := 1.

Record KeyFile := mkKF {
  kf_base : bytes;          (* BaseAddress *)
  kf_cipher_name : bytes; kf_kdf : bytes;
  kf_cipher : bytes; kf_nonce : bytes; kf_salt : bytes;
  kf_version : Z; kf_timestamp : Z
}.
(* what Write puts into the JSON document: byte strings as hexutil text (the address text form and the
   JSON syntax itself are the libraries') *)
Record KeyFileText := mkKFT {
  t_base : bytes; t_cipher_name : bytes; t_kdf : bytes;
  t_cipher : bytes; t_nonce : bytes; t_salt : bytes;
  t_version : Z; t_timestamp : Z
}.
Definition write_kf (k : KeyFile) : KeyFileText :=
  mkKFT (kf_base k) (kf_cipher_name k) (kf_kdf k) (hexutil_enc (kf_cipher k)) (hexutil_enc (kf_nonce k))
        (hexutil_enc (kf_salt k)) (kf_version k) (kf_timestamp k).

Inductive werr := EJson | EVersion | ECipher | EKdf | EWrongPassword | EEntropy | EInvalidPath | ENoPublicDerivation.
Inductive wres (A : Type) := WOk (a : A) | WErr (e : werr).
Arguments WOk {A} a. Arguments WErr {A} e.
Definition wbind {A B} (r : wres A) (k : A -> wres B) : wres B := match r with WOk a => k a | WErr e => WErr e end.

(* ReadKeyFile: json.Unmarshal (hex fields), then version, cipher name, kdf name *)
Definition read_kf (t : KeyFileText) : wres KeyFile :=
  match hexutil_dec (t_cipher t), hexutil_dec (t_nonce t), hexutil_dec (t_salt t) with
  | Some c, Some n, Some s =>
    if negb (t_version t =? store_version) then WErr EVersion
    else if negb (bytes_eqb (t_cipher_name t) aes_mode) then WErr ECipher
    else if negb (bytes_eqb (t_kdf t) argon_name) then WErr EKdf
    else WOk (mkKF (t_base t) (t_cipher_name t) (t_kdf t) c n s (t_version t) (t_timestamp t))
  | _, _, _ => WErr EJson
  end.

(* ---------------------------------------------------------------- derivation path *)
(* ^m(\/[0-9]+')+$  : the digit strings of the segments, or None *)
Fixpoint take_digits (s : bytes) : bytes * bytes :=
  match s with
  | c :: r => if is_digit c then let '(d, t) := take_digits r in (c :: d, t) else ([], s)
  | [] => ([], [])
  end.
Fixpoint path_segments (fuel : nat) (s : bytes) : option (list bytes) :=
  match fuel with
  | O => None
  | S k =>
    match s with
    | [] => Some []
    | c :: r =>
      if c =? 47 then
        let '(d, t) := take_digits r in
        match d, t with
        | _ :: _, q :: t' => if q =? 39 then option_map (cons d) (path_segments k t') else None
        | _, _ => None
        end
      else None
    end
  end.
Definition path_regex (s : bytes) : option (list bytes) :=
  match s with
  | 109 :: r => match path_segments (S (length r)) r with
                | Some (x :: l) => Some (x :: l)
                | _ => None
                end
  | _ => None
  end.
(* strconv.ParseUint(digits, 10, 32) *)
Definition parse_uint32 (d : bytes) : option Z :=
  match parse_digits 0 d with
  | Some v => if v <? two32 then Some v else None
  | None => None
  end.
Fixpoint map_opt {A B} (f : A -> option B) (l : list A) : option (list B) :=
  match l with
  | [] => Some []
  | x :: r => match f x, map_opt f r with Some y, Some ys => Some (y :: ys) | _, _ => None end
  end.
(* isValidPath, returning the numbers of the segments *)
Definition parse_path (s : bytes) : option (list Z) :=
  match path_regex s with Some segs => map_opt parse_uint32 segs | None => None end.

(* fmt.Sprintf("m/44'/73404'/%d'", index) for a uint32 index *)
Definition path_prefix : bytes := [109;47;52;52;39;47;55;51;52;48;52;39;47].      (* "m/44'/73404'/" *)
Definition format_path (index : Z) : bytes := path_prefix ++ print_dec index ++ [39].

Definition first_hardened : Z := 2147483648.
(* uint32(i64) + FirstHardenedIndex in uint32, then key.derive refuses i < FirstHardenedIndex *)
Definition child_index (n : Z) : Z := u32 (n + first_hardened).
Definition hardened (i : Z) : bool := first_hardened <=? i.

(* which way DeriveForPath ends, as far as the path alone decides it *)
Inductive dclass := DOk_ | DInvalid | DNoPublic.
Definition derive_class (path : bytes) : dclass :=
  match parse_path path with
  | None => DInvalid
  | Some ns => if forallb (fun n => hardened (child_index n)) ns then DOk_ else DNoPublic
  end.

Section Crypto.
  Variable kdf : bytes -> bytes -> bytes.                       (* argon2.IDKey password salt (1, 64MiB, 4, 32) *)
  Variable seal : bytes -> bytes -> bytes -> bytes -> bytes.    (* AES-256-GCM Seal key nonce aad plaintext *)
  Variable open : bytes -> bytes -> bytes -> bytes -> option bytes.
  Variable mnemonic : bytes -> option bytes.                    (* bip39.NewMnemonic (None: bad entropy size) *)
  Variable seed_of : bytes -> bytes.                            (* bip39.NewSeed mnemonic "" *)
  Variable hmac512 : bytes -> bytes -> bytes.                   (* HMAC-SHA512 key data *)
  Variable ed_pub : bytes -> bytes.                             (* ed25519 public key of a 32-byte seed *)
  Variable sha3 : bytes -> bytes.

  Record KeyPair := mkKP { kp_pub : bytes; kp_priv : bytes; kp_addr : bytes }.
  (* types.PubKeyToAddress: 0x00 || sha3-256(pubkey)[:19] *)
  Definition pk_to_addr (pk : bytes) : bytes := 0 :: firstn 19 (sha3 pk).
  (* key.toKeyPair: ed25519.GenerateKey from the 32 key bytes; the private key is seed || public *)
  Definition to_keypair (k : bytes * bytes) : KeyPair :=
    let pub := ed_pub (fst k) in mkKP pub (fst k ++ pub) (pk_to_addr pub).

  (* newMasterKey / derive *)
  Definition split64 (s : bytes) : bytes * bytes := (firstn 32 s, skipn 32 s).
  Definition master_key (seed : bytes) : bytes * bytes :=
    split64 (hmac512 [101;100;50;53;53;49;57;32;115;101;101;100] seed).   (* "ed25519 seed" *)
  Definition derive_child (k : bytes * bytes) (i : Z) : wres (bytes * bytes) :=
    if hardened i then WOk (split64 (hmac512 (snd k) (0 :: fst k ++ be_bytes 4 i)))
    else WErr ENoPublicDerivation.
  Fixpoint derive_chain (k : bytes * bytes) (ns : list Z) : wres (bytes * bytes) :=
    match ns with
    | [] => WOk k
    | n :: r => wbind (derive_child k (child_index n)) (fun k' => derive_chain k' r)
    end.
  (* DeriveForPath *)
  Definition derive_for_path (path seed : bytes) : wres KeyPair :=
    match parse_path path with
    | None => WErr EInvalidPath
    | Some ns => wbind (derive_chain (master_key seed) ns) (fun k => WOk (to_keypair k))
    end.
  Definition derive_for_index (seed : bytes) (index : Z) : wres KeyPair := derive_for_path (format_path index) seed.

  (* keyStoreFromEntropy *)
  Record KeyStore := mkKS { ks_entropy : bytes; ks_seed : bytes; ks_mnemonic : bytes; ks_base : bytes }.
  Definition keystore_from_entropy (e : bytes) : wres KeyStore :=
    match mnemonic e with
    | None => WErr EEntropy
    | Some m => let sd := seed_of m in
                wbind (derive_for_index sd 0) (fun kp => WOk (mkKS e sd m (kp_addr kp)))
    end.

  (* KeyStore.Encrypt with the random salt / nonce and the clock supplied *)
  Definition encrypt (pw salt nonce : bytes) (now : Z) (ks : KeyStore) : KeyFile :=
    mkKF (ks_base ks) aes_mode argon_name (seal (kdf pw salt) nonce gcm_aad (ks_entropy ks)) nonce salt store_version now.
  (* KeyFile.Decrypt *)
  Definition decrypt (pw : bytes) (k : KeyFile) : wres KeyStore :=
    match open (kdf pw (kf_salt k)) (kf_nonce k) gcm_aad (kf_cipher k) with
    | None => WErr EWrongPassword
    | Some e => keystore_from_entropy e
    end.
End Crypto.
