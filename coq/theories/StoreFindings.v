(* Records of the defects found in /repo/common/db while building the model (all fixed in /repo by "fix:"
   commits; see known_findings.json). Each lemma is about the OLD definition and exhibits a concrete witness. *)
From ZV Require Import Prelude.
From stdpp Require Import gmap.
From ZV Require Import Store.
Open Scope Z_scope.

(* F5: ApplyWithoutOverride recorded "deleted" as [0], which enableDelete decodes as present-and-empty *)
Definition tomb_old : list Z := [0].
Lemma old_tombstone_reads_as_present : dec (Some tomb_old) = Some [] /\ dec (Some (enc_op (PDel [1]))) = None.
Proof. split; reflexivity. Qed.

(* F5b: the skip-deleted iterator dropped every value of length <= 1, i.e. also present-but-empty values *)
Definition skip_old (e : list Z) : bool := (length e <=? 1)%nat.
Lemma old_skip_hides_empty_value : skip_old (enc_op (PPut [1] [])) = true /\ dec (Some (enc_op (PPut [1] []))) = Some [].
Proof. split; reflexivity. Qed.

(* F6: the old parent check compared [prev] with the frontier identifier read from the parent's own view, which
   is [prev] itself; so a commit on a stale parent was applied. Modelled by dropping the check. *)
Definition mgr_add_old (m : mgr) (prev cid : list Z * Z) (data : list Z) (p : list pop) : step_res mgr :=
  match mgr_get m prev with
  | GNil => ROk m false
  | GPanic => RPanic
  | GView ov base m1 =>
    let full := p ++ frontier_ops cid data in
    let undo := rollback_patch (fun k => dec ((ov ∪ base) !! k)) full in
    ROk (Mgr (raw_apply (m_front m1) full) (<[snd cid := full]> (m_redo m1)) (<[snd cid := undo]> (m_undo m1)) (m_cache m1)) true
  end.

Definition h (b : Z) : list Z := b :: repeat 0 31%nat.
Definition run_adds (f : mgr -> list Z * Z -> list Z * Z -> list Z -> list pop -> step_res mgr)
           (m : mgr) (l : list ((list Z * Z) * (list Z * Z) * list pop)) : mgr :=
  foldl (fun m x => let '(prev, cid, p) := x in match f m prev cid [] p with ROk m' _ => m' | RPanic => m end) m l.

Lemma old_stale_parent_applied :
  let m2 := run_adds mgr_add mgr_init [(zero_id, (h 1, 1), [PPut [5] [1]]); ((h 1, 1), (h 2, 2), [PPut [5] [2]])] in
  (* a commit whose parent is the zero identifier, while the frontier is at height 2 *)
  match mgr_add_old m2 zero_id (h 3, 1) [] [PPut [6] [9]] with
  | ROk m' _ => dec (m_front m' !! [6]) = Some [9] /\ frontier_id (m_front m') = (h 3, 1)
  | RPanic => False
  end /\
  match mgr_add m2 zero_id (h 3, 1) [] [PPut [6] [9]] with
  | ROk m' _ => m_front m' = m_front m2
  | RPanic => False
  end.
Proof. vm_compute. repeat split. Qed.

(* F7: Pop kept the overlay cache. An overlay cached while branch A was the frontier is reused after the switch
   to branch B, and only undo patches above the cached frontier height are added. *)
Definition mgr_pop_old (m : mgr) : step_res mgr :=
  let fid := frontier_id (m_front m) in
  match m_undo m !! snd fid with
  | None => RPanic
  | Some u => ROk (Mgr (raw_apply (m_front m) u) (delete (snd fid) (m_redo m)) (delete (snd fid) (m_undo m)) (m_cache m)) true
  end.
Definition after_get (m : mgr) (i : list Z * Z) : mgr := match mgr_get m i with GView _ _ m' => m' | _ => m end.
Definition read_at (m : mgr) (i : list Z * Z) (k : list Z) : option (list Z) :=
  match mgr_get m i with GView ov base _ => dec ((ov ∪ base) !! k) | _ => Some [99] end.
Definition pop_with (f : mgr -> step_res mgr) (m : mgr) : mgr := match f m with ROk m' _ => m' | RPanic => m end.

Lemma old_cache_survives_reorg :
  let X := (h 1, 1) in
  let m1 := run_adds mgr_add mgr_init [(zero_id, X, [PPut [5] [1]]); (X, (h 2, 2), [PPut [5] [2]])] in
  let m1' := after_get m1 X in                                  (* view at X opened on branch A: fills the cache *)
  let switch pop := run_adds mgr_add (pop_with pop m1')
                      [(X, (h 3, 2), [PPut [6] [7]]); ((h 3, 2), (h 4, 3), [PPut [8] [8]])] in
  read_at (switch mgr_pop_old) X [6] = Some [7]  (* wrong: key [6] did not exist at X *)
  /\ read_at (switch mgr_pop) X [6] = None.
Proof. vm_compute. split; reflexivity. Qed.
