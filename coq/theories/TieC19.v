(* Executable entry points compared with the implementation by ./check C19. *)
From ZV Require Import Prelude Dec Wallet.
Open Scope Z_scope.

Definition obytes_eqb19 : option bytes -> option bytes -> bool := option_eqb bytes_eqb.
Definition olz_eqb : option (list Z) -> option (list Z) -> bool := option_eqb (list_eqb Z.eqb).
Definition dclass_eqb (a b : dclass) : bool :=
  match a, b with DOk_, DOk_ | DInvalid, DInvalid | DNoPublic, DNoPublic => true | _, _ => false end.
Definition werr_eqb (a b : werr) : bool :=
  match a, b with
  | EJson, EJson | EVersion, EVersion | ECipher, ECipher | EKdf, EKdf | EWrongPassword, EWrongPassword
  | EEntropy, EEntropy | EInvalidPath, EInvalidPath | ENoPublicDerivation, ENoPublicDerivation => true
  | _, _ => false
  end.
Definition kf_eqb (a b : KeyFile) : bool :=
  bytes_eqb (kf_base a) (kf_base b) && bytes_eqb (kf_cipher_name a) (kf_cipher_name b) && bytes_eqb (kf_kdf a) (kf_kdf b) &&
  bytes_eqb (kf_cipher a) (kf_cipher b) && bytes_eqb (kf_nonce a) (kf_nonce b) && bytes_eqb (kf_salt a) (kf_salt b) &&
  (kf_version a =? kf_version b) && (kf_timestamp a =? kf_timestamp b).
Definition kft_eqb (a b : KeyFileText) : bool :=
  bytes_eqb (t_base a) (t_base b) && bytes_eqb (t_cipher_name a) (t_cipher_name b) && bytes_eqb (t_kdf a) (t_kdf b) &&
  bytes_eqb (t_cipher a) (t_cipher b) && bytes_eqb (t_nonce a) (t_nonce b) && bytes_eqb (t_salt a) (t_salt b) &&
  (t_version a =? t_version b) && (t_timestamp a =? t_timestamp b).
Definition wres_kf_eqb (a b : wres KeyFile) : bool :=
  match a, b with WOk x, WOk y => kf_eqb x y | WErr e, WErr f => werr_eqb e f | _, _ => false end.

Definition hexutil_enc_run (b : bytes) : bytes := hexutil_enc b.
Definition hexutil_dec_run (s : bytes) : option bytes := hexutil_dec s.
Definition parse_path_run (s : bytes) : option (list Z) := parse_path s.
Definition derive_class_run (s : bytes) : dclass := derive_class s.
Definition format_path_run (i : Z) : bytes := format_path i.
(* DeriveWithIndex succeeds? *)
Definition derive_index_ok_run (i : Z) : bool := match derive_class (format_path i) with DOk_ => true | _ => false end.
Definition read_kf_run (t : KeyFileText) : wres KeyFile := read_kf t.
Definition write_kf_run (k : KeyFile) : KeyFileText := write_kf k.
