(* C06 — Reorganisation leaves no trace of the abandoned branch (store level: ledger state and every
   historical view). Statements only; proofs in theories/StoreTheorems.v via the refinement theorem. *)
From ZV Require Import Prelude.
From stdpp Require Import gmap sorting.
From ZV Require Import Store StoreSpec StoreProofs StoreTheorems StoreFindings.
Open Scope Z_scope.

(* rolling back a commit restores exactly the state before it: every later observation (any key, any view at
   any identifier, any scan, the stored patches) is what it would have been without the commit *)
Theorem C06_pop_inverse : forall pre cid data p post,
  let prev := a_front_id (a_chain (afinal ast_init pre)) in
  wf_ops ast_init (pre ++ [OAdd prev cid data p; OPop] ++ post) -> wf_ops ast_init (pre ++ post) ->
  skipn (S (S (length pre))) (run st_init (pre ++ [OAdd prev cid data p; OPop] ++ post)) =
  skipn (length pre) (run st_init (pre ++ post)).
Proof. exact pop_inverse. Qed.

(* a whole abandoned branch: commits A1..An on top of the prefix, then n rollbacks, then anything (in particular
   the adopted branch B and views opened at commits of the prefix or of B): same answers as a store that never
   saw A — for all branch contents, all depths, all cache states (views opened while A was the frontier fill the
   overlay cache; they are part of [pre]/[branchA]-interleavings covered by C06_views_during_branch below) *)
Theorem C06_switch_equiv : forall pre branchA post,
  on_frontier_adds (afinal ast_init pre) branchA ->
  let detour := branchA ++ replicate (length branchA) OPop in
  wf_ops ast_init (pre ++ detour ++ post) -> wf_ops ast_init (pre ++ post) ->
  skipn (length pre + length detour) (run st_init (pre ++ detour ++ post)) =
  skipn (length pre) (run st_init (pre ++ post)).
Proof. exact switch_equiv. Qed.

(* with arbitrary operations (views opened, reads, evictions) interleaved anywhere, the store still answers like
   the specification, whose chain after the switch is literally the adopted chain *)
Theorem C06_views_during_branch : forall ops, wf_ops ast_init ops -> run st_init ops = arun ast_init ops.
Proof. exact store_refines_spec. Qed.
Theorem C06_spec_rollback_is_tail : forall a, a_chain (fst (astep a OPop)) = tail (a_chain a) /\ a_views (fst (astep a OPop)) = a_views a.
Proof. intros [c vs]. split; reflexivity. Qed.

(* record of the defect found (fixed): the overlay cache survived a rollback *)
Theorem C06_old_cache_refuted :
  let X := (h 1, 1) in
  let m1 := run_adds mgr_add mgr_init [(zero_id, X, [PPut [5] [1]]); (X, (h 2, 2), [PPut [5] [2]])] in
  let m1' := after_get m1 X in
  let switch pop := run_adds mgr_add (pop_with pop m1')
                      [(X, (h 3, 2), [PPut [6] [7]]); ((h 3, 2), (h 4, 3), [PPut [8] [8]])] in
  read_at (switch mgr_pop_old) X [6] = Some [7] /\ read_at (switch mgr_pop) X [6] = None.
Proof. exact old_cache_survives_reorg. Qed.

Example C06_example : on_frontier_adds ast_init [OAdd zero_id (h 1, 1) [] [PPut [5] [1]]; OAdd (h 1, 1) (h 2, 2) [] []].
Proof. cbn. repeat split; reflexivity. Qed.

(* ---- consensus statistics (consensus/points.go): the points module stores period and epoch statistics in the
   consensus DB, which survives rollbacks and restarts; a stored point is reused only if its end hash is the hash of
   the tick's end block on the current chain. For EVERY history of momentum insertions, rollbacks (any depth),
   restarts and queries — hence whatever was computed and stored on abandoned branches — every answer is the answer of
   a node that computes it from the current chain with an empty DB (Points.fresh_period / fresh_epoch). The one
   exception is spelled out in [epoch_answer_ok]: while the frontier is the last momentum before the end of an epoch
   that an abandoned branch had already finished, the epoch answer is the one for the finished epoch with the same
   content (it cannot arise after adopting a strictly longer branch; the node suite never observes it).
   [Hf] is the momentum hash as a function of (previous hash, timestamp, producer), assumed injective (hash collision
   freedom); [election] is ElectionByTick as a function of the chain before the end of the tick (C05). *)
From ZV Require Import Points PointsProofs.
Theorem C06_points_coherent :
  forall (gts dur mult : Z) (election : list mom -> Z -> option elect) (Hf : Z -> Z -> Z -> Z) (gen : mom),
  (forall a b c a' b' c' : Z, Hf a b c = Hf a' b' c' -> a = a' /\ b = b' /\ c = c') ->
  (forall a b c : Z, Hf a b c <> m_hash gen) -> 0 < dur -> 0 < mult ->
  forall ops, wf_ops gts dur mult election Hf (init gen) ops ->
  answers_ok gts dur mult election Hf gen (init gen) ops.
Proof. intros. eapply points_coherent; eauto. apply inv_init. Qed.

(* computing an epoch point never runs below the first election tick of the epoch and never divides by zero *)
Theorem C06_epoch_point_never_panics :
  forall (gts dur mult : Z) (election : list mom -> Z -> option elect) (Hf : Z -> Z -> Z -> Z) (gen : mom),
  (forall a b c a' b' c' : Z, Hf a b c = Hf a' b' c' -> a = a' /\ b = b' /\ c = c') ->
  (forall a b c : Z, Hf a b c <> m_hash gen) -> 0 < mult ->
  forall c e, valid Hf gen c -> fresh_epoch gts dur mult election c e <> PPanic.
Proof. exact epoch_never_panics. Qed.

(* non-vacuity: for every hash function the history "momentum, period query, rollback, other momentum, epoch query,
   restart, epoch query" is well formed *)
Example C06_points_history_wf : forall gts dur mult election Hf gen,
  let m1 := mkMom (Hf (m_hash gen) 10 1) (m_hash gen) 10 1 in
  let m2 := mkMom (Hf (m_hash gen) 700 2) (m_hash gen) 700 2 in
  wf_ops gts dur mult election Hf (init gen) [OInsert m1; OPeriod 0; ORollback 1; OInsert m2; OEpoch 0; ORestart; OEpoch 0].
Proof.
  intros. cbn [wf_ops wf_op]. rewrite !step_chain. cbn [init n_chain app length firstn Nat.sub last_opt].
  repeat split; try (cbn; lia); try (eexists; repeat split; reflexivity).
Qed.

(* ---- the unconfirmed pool (chain/account_pool.go DeleteMomentum / rebuild, model Pool.v shared with C14): after a
   rollback to j confirmed blocks of an account the manager holds exactly those blocks and nothing unconfirmed, so two
   nodes whose j oldest blocks agree — one that had pooled and confirmed anything on the abandoned branch, one that never
   saw it — are in the same state and answer every later pool operation alike *)
From ZV Require Pool PoolProofs.
Theorem C06_pool_rollback_leaves_no_trace : forall (a1 a2 : Pool.acct) (j : nat) (ops : list Pool.op),
  (j <= Pool.sh a1)%nat -> (j <= Pool.sh a2)%nat ->
  skipn (length (Pool.rchain a1) - j) (Pool.rchain a1) = skipn (length (Pool.rchain a2) - j) (Pool.rchain a2) ->
  Pool.run a1 (Pool.ODelete j :: ops) = Pool.run a2 (Pool.ODelete j :: ops).
Proof. exact PoolProofs.delete_then_same. Qed.
Theorem C06_pool_empty_after_rollback : forall (a : Pool.acct) (j : nat), Pool.wf a -> (j <= Pool.sh a)%nat ->
  let a' := fst (Pool.step a (Pool.ODelete j)) in length (Pool.rchain a') = Pool.sh a' /\ Pool.sh a' = j.
Proof. exact PoolProofs.delete_pool_empty. Qed.
