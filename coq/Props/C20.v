(* C20 — Genesis: same config, same chain; inconsistent config or database refused.
   Only statements; each is closed by a lemma proved in theories/. *)
From Coq Require Import Permutation.
From ZV Require Import Prelude Block Genesis GenesisProofs.
Open Scope Z_scope.

(* the patch of a genesis account block (memdb Changes(): sorted, last write wins) does not depend on the
   order in which the entries' Save methods ran, when the written keys are pairwise distinct *)
Theorem C20_patch_order_free : forall w w' : list kv,
  NoDup (map fst w) -> Permutation w w' -> norm w = norm w'.
Proof. exact norm_perm_invariant. Qed.

(* the genesis momentum is computed from (chain id, timestamp, extra data, sorted content with patches):
   that value is the same for every order of the accounts, of the entries of an account and of their writes *)
Theorem C20_perm_invariant : forall (chain timestamp : Z) (extra : bytes) (l l' : list GAccount),
  entries_distinct l -> cfg_perm l l' ->
  genesis chain timestamp extra l = genesis chain timestamp extra l'.
Proof. intros. unfold genesis. f_equal. apply genesis_perm_invariant; assumption. Qed.

(* the distinctness hypothesis is needed: with a key written twice the order decides (the mock genesis
   has several fusions with the same (owner, id)) *)
Theorem C20_distinctness_needed : exists w w' : list kv, Permutation w w' /\ norm w <> norm w'.
Proof. exact norm_order_matters. Qed.

(* CheckGenesis, as written after fixes 47865a2 and 6ab94f1: an accepted configuration has one block per
   address; in the genesis state the balances of every declared token add up to its declared supply, every
   listed token is declared, and the plasma / pillar / swap contracts hold exactly the sum of the fusions /
   the sum of the pillar stakes / nothing *)
Theorem C20_check_sound : forall c : Config, check_genesis c = true ->
  exists blocks tokens pillars fusions swap,
    c_blocks c = Some blocks /\ c_tokens c = Some tokens /\ c_pillars c = Some pillars /\
    c_fusions c = Some fusions /\ c_swap c = Some swap /\ c_spork_addr c = true /\
    NoDup (map gb_addr blocks) /\
    (forall z supply, In (z, supply) tokens ->
       sumZ (map (fun b => state_balance blocks (gb_addr b) z) blocks) = supply) /\
    (forall b z a, In b blocks -> In (z, a) (gb_bal b) -> exists s, In (z, s) tokens) /\
    state_balance blocks plasma_addr qsr_zts = fusion_total fusions /\
    state_balance blocks pillar_addr znn_zts = sumZ pillars /\
    (forall z, state_balance blocks swap_addr z = 0).
Proof. exact check_genesis_sound. Qed.

(* chain.Init: succeeds iff the database is empty or its first momentum is the configured genesis, and
   the stored first momentum is the configured genesis afterwards; it refuses exactly a database whose
   first momentum has another hash *)
Theorem C20_compat : forall (db : option bytes) (h s : bytes),
  init_db db h = Some s <-> (db = None /\ s = h) \/ (db = Some h /\ s = h).
Proof. exact init_db_spec. Qed.
Theorem C20_compat_refuses : forall (db : option bytes) (h : bytes),
  init_db db h = None <-> exists d, db = Some d /\ d <> h.
Proof. exact init_db_refuses. Qed.

(* ... over every sequence of starts: whatever a start accepted is accepted again, unchanged, under the same configuration, and
   refused under every configuration whose genesis hash differs *)
Theorem C20_compat_restart : forall (db : option bytes) (h s : bytes),
  init_db db h = Some s ->
  init_db (Some s) h = Some s /\ (forall h', h' <> h -> init_db (Some s) h' = None).
Proof. exact init_db_restart. Qed.

(* record of the two defects fixed in /repo: the validators before the fixes accepted a plasma contract with
   100 fused and no entry (state balance 0), and two entries of one address (5 and 7 listed, supply 12,
   state balance 7) *)
Theorem C20_vacuous_holdings_refuted :
  (check_genesis_old cfg_no_entry = true) /\ (check_genesis cfg_no_entry = false) /\
  (fusion_total [Some 100] = 100) /\ (state_balance [mkGB ex_user [(qsr_zts, 5)]] plasma_addr qsr_zts = 0).
Proof. exact old_no_entry_refuted. Qed.
Theorem C20_duplicate_address_refuted :
  (check_genesis_old cfg_dup = true) /\ (check_genesis cfg_dup = false) /\
  (state_balance [mkGB ex_user [(znn_zts, 5)]; mkGB ex_user [(znn_zts, 7)]] ex_user znn_zts = 7).
Proof. exact old_duplicate_refuted. Qed.

(* ---- non-vacuity *)
Example C20_accepted_example : check_genesis cfg_ok = true.
Proof. exact cfg_ok_accepted. Qed.
Definition ex_acc (n : Z) (es : list (list kv)) : GAccount := mkGA (0 :: repeat n 19) (repeat n 32) es.
Example C20_distinct_example :
  entries_distinct [ex_acc 1 [[([1], [1]); ([2], [2])]; [([3], [3])]]; ex_acc 2 [[([1], [9])]]] /\
  cfg_perm [ex_acc 1 [[([1], [1]); ([2], [2])]; [([3], [3])]]; ex_acc 2 [[([1], [9])]]]
           [ex_acc 2 [[([1], [9])]]; ex_acc 1 [[([3], [3])]; [([1], [1]); ([2], [2])]]].
Proof.
  split.
  - repeat split.
    + repeat constructor; cbn; intuition discriminate.
    + repeat constructor; cbn; intuition discriminate.
    + repeat constructor.
  - exists [ex_acc 2 [[([1], [9])]]; ex_acc 1 [[([1], [1]); ([2], [2])]; [([3], [3])]]]. split; [apply perm_swap|].
    repeat constructor; cbn. apply (Permutation_app_comm [([1], [1]); ([2], [2])] [([3], [3])]).
Qed.
