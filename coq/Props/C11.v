(* C11 — Rewards: bounded by the epoch's emission, paid once, identical on all nodes.
   Only statements; each is closed by a lemma proved in theories/RewardsProofs.v.
   The emission functions, percentages, tables and weight functions are the definitions regenerated from
   /repo (gen/Pure.v, gen/Consts.v); the contract routines are the model in theories/Rewards.v. *)
From Coq Require Import Sorted.
From ZV Require Import Prelude GoSem Rewards RewardsProofs.
From ZV.gen Require Import Consts Pure PureCursor.
Open Scope Z_scope.

(* for every uint64 epoch none of the translated emission functions panics (slice index, division) *)
Theorem C11_emission_no_panic : forall e, 0 <= e < two64 ->
  NetworkZnnRewardPerEpoch e <> Panic /\ NetworkQsrRewardPerEpoch e <> Panic /\
  PillarRewardPerMomentum e <> Panic /\ SentinelRewardForEpoch e <> Panic /\
  LiquidityRewardForEpoch e <> Panic /\ StakeQsrRewardPerEpoch e <> Panic.
Proof. exact emission_no_panic. Qed.

(* the percentages hand out at most 100 % of each token's emission *)
Theorem C11_percentages :
  0 <= DelegationZnnRewardPercentage /\ 0 <= MomentumProducingZnnRewardPercentage /\
  0 <= SentinelZnnRewardPercentage /\ 0 <= LiquidityZnnRewardPercentage /\
  DelegationZnnRewardPercentage + MomentumProducingZnnRewardPercentage +
  SentinelZnnRewardPercentage + LiquidityZnnRewardPercentage <= 100 /\
  0 <= StakingQsrRewardPercentage /\ 0 <= SentinelQsrRewardPercentage /\ 0 <= LiquidityQsrRewardPercentage /\
  StakingQsrRewardPercentage + SentinelQsrRewardPercentage + LiquidityQsrRewardPercentage <= 100.
Proof.
  destruct znn_percentages as [A [B [C [D E]]]]. destruct qsr_percentages as [F [G [H I]]].
  repeat split; assumption.
Qed.

(* the per-contract amounts of one epoch, as computed by the translated functions, add up to at most the
   epoch's emission (pillars: per-momentum amounts times the MomentumsPerEpoch slots of a 24 h epoch) *)
Theorem C11_emission_split : forall e, 0 <= e < two64 ->
  exists z q d b sz sq lz lq st,
    NetworkZnnRewardPerEpoch e = Ok z /\ NetworkQsrRewardPerEpoch e = Ok q /\
    PillarRewardPerMomentum e = Ok (d, b) /\ SentinelRewardForEpoch e = Ok (sz, sq) /\
    LiquidityRewardForEpoch e = Ok (lz, lq) /\ StakeQsrRewardPerEpoch e = Ok st /\
    0 <= d /\ 0 <= b /\ 0 <= sz /\ 0 <= sq /\ 0 <= lz /\ 0 <= lq /\ 0 <= st /\
    (d + b) * MomentumsPerEpoch + sz + lz <= z /\
    st + sq + lq <= q.
Proof. exact emission_split. Qed.

(* a pro-rata split (stake, sentinel, backers, liquidity stake: reward_i = total * w_i / sum w) with
   non-negative weights never hands out more than the total *)
Theorem C11_liquidity_bounded : forall total ws,
  0 <= total -> Forall (fun w => 0 <= w) ws -> 0 < zsum ws ->
  zsum (split total ws) <= total /\ Forall (fun x => 0 <= x) (split total ws).
Proof. intros. split; [apply split_bounded | apply split_nonneg]; assumption. Qed.

(* pillars and their backers: everything credited for one epoch (all addReward calls of
   computeDetailedPillarReward) is at most (delegation + producing reward per momentum) * expected momentums,
   for well-formed epoch statistics: produced <= expected, weights sum to at most the total weight *)
Theorem C11_pillar_bounded : forall st infos ds d b cs,
  stats_wf st -> infos_wf infos -> details_wf ds ->
  PillarRewardPerMomentum (es_epoch st) = Ok (d, b) -> 0 <= d -> 0 <= b ->
  detailed_pillar_reward st infos ds = Done cs ->
  zsum (map snd cs) <= (d + b) * total_expected st.
Proof. exact pillar_bounded. Qed.

(* with at most MomentumsPerEpoch slots in the epoch that is the pillars' 74 % share of the epoch's ZNN emission *)
Theorem C11_pillar_bounded_24h : forall st infos ds cs z,
  stats_wf st -> infos_wf infos -> details_wf ds -> 0 <= es_epoch st < two64 ->
  total_expected st <= MomentumsPerEpoch ->
  NetworkZnnRewardPerEpoch (es_epoch st) = Ok z ->
  detailed_pillar_reward st infos ds = Done cs ->
  zsum (map snd cs) <= z * (DelegationZnnRewardPercentage + MomentumProducingZnnRewardPercentage) / 100.
Proof. exact pillar_bounded_24h. Qed.

Theorem C11_stake_bounded : forall epoch s e l cs rem,
  0 <= epoch < two64 -> time_ok s -> time_ok e -> Forall sentry_ok l ->
  stake_rewards epoch s e l = Ok (cs, rem) ->
  exists q total, NetworkQsrRewardPerEpoch epoch = Ok q /\ StakeQsrRewardPerEpoch epoch = Ok total /\
    total = q * StakingQsrRewardPercentage / 100 /\
    Forall (fun c => 0 <= snd c) cs /\ zsum (map snd cs) <= total /\ total <= q.
Proof. exact stake_bounded. Qed.

Theorem C11_sentinel_bounded : forall epoch s e l cs,
  0 <= epoch < two64 ->
  sentinel_rewards epoch s e l = Ok cs ->
  exists z q tz tq, NetworkZnnRewardPerEpoch epoch = Ok z /\ NetworkQsrRewardPerEpoch epoch = Ok q /\
    SentinelRewardForEpoch epoch = Ok (tz, tq) /\
    tz = z * SentinelZnnRewardPercentage / 100 /\ tq = q * SentinelQsrRewardPercentage / 100 /\
    zsum (map (fun c => fst (snd c)) cs) <= tz /\ zsum (map (fun c => snd (snd c)) cs) <= tq.
Proof. exact sentinel_bounded. Qed.

(* liquidity contract (before the bridge-and-liquidity spork it mints itself exactly this amount per epoch) *)
Theorem C11_liquidity_share : forall e, 0 <= e < two64 ->
  exists z q lz lq, NetworkZnnRewardPerEpoch e = Ok z /\ NetworkQsrRewardPerEpoch e = Ok q /\
    LiquidityRewardForEpoch e = Ok (lz, lq) /\ 0 <= lz <= z /\ 0 <= lq <= q.
Proof. exact liquidity_share. Qed.

(* liquidity contract after the bridge-and-liquidity spork (computeLiquidityStakeRewardsForEpoch), for all token tuples,
   stake entries, balances and additional rewards: credited + minted to the contract - burned from the contract's
   own balance is exactly the epoch's liquidity share, and credits are at most share + burned additional reward *)
Theorem C11_liquidity_stake_exact : forall epoch s e halted bal_z bal_q extra_z extra_q ts l r,
  0 <= epoch < two64 ->
  liq_stake_rewards epoch s e halted bal_z bal_q extra_z extra_q ts l = Ok (Done r) ->
  exists z q lz lq, NetworkZnnRewardPerEpoch epoch = Ok z /\ NetworkQsrRewardPerEpoch epoch = Ok q /\
    LiquidityRewardForEpoch epoch = Ok (lz, lq) /\ 0 <= lz <= z /\ 0 <= lq <= q /\
    zsum (map (fun c => fst (snd c)) (lq_credits r)) + fst (lq_mint r) - fst (lq_burn r) = lz /\
    zsum (map (fun c => snd (snd c)) (lq_credits r)) + snd (lq_mint r) - snd (lq_burn r) = lq /\
    zsum (map (fun c => fst (snd c)) (lq_credits r)) <= lz + fst (lq_burn r) /\
    zsum (map (fun c => snd (snd c)) (lq_credits r)) <= lq + snd (lq_burn r) /\
    0 <= fst (lq_mint r) /\ 0 <= snd (lq_mint r) /\
    (fst (lq_burn r) = 0 \/ (fst (lq_burn r) = extra_z /\ 0 < extra_z <= bal_z)) /\
    (snd (lq_burn r) = 0 \/ (snd (lq_burn r) = extra_q /\ 0 < extra_q <= bal_q)).
Proof. exact liquidity_stake_exact. Qed.

(* one Update call of the pillar / stake / sentinel contract: the rewarded epochs are exactly
   LastEpoch+1 .. LastEpoch+k in increasing order, the stored cursor advances by k, every rewarded epoch ended
   at least RewardTimeLimit before the acknowledged momentum, and the next epoch is not yet due *)
Theorem C11_cursor : forall fuel g dur now last es l',
  cursor_ok g dur last -> now < two62 ->
  update_loop fuel g dur now last = Some (es, l') ->
  es = zrange (last + 1) (length es) /\ l' = last + Z.of_nat (length es) /\
  Forall (fun e => epoch_end g dur e + RewardTimeLimit <= now) es /\
  now < epoch_end g dur (l' + 1) + RewardTimeLimit /\ cursor_ok g dur l'.
Proof. exact update_loop_spec. Qed.

Theorem C11_cursor_terminates : forall fuel g dur now last,
  cursor_ok g dur last -> now < two62 -> Z.max 0 (now - last) < Z.of_nat fuel ->
  update_loop fuel g dur now last <> None.
Proof. exact update_loop_terminates. Qed.

(* over any history of Update calls, at any momentum times: each epoch is rewarded at most once, in
   increasing order, without gaps *)
Theorem C11_once_per_epoch : forall fuel g dur nows last es l',
  cursor_ok g dur last -> Forall (fun now => now < two62) nows ->
  run_updates fuel g dur nows last = Some (es, l') ->
  es = zrange (last + 1) (length es) /\ l' = last + Z.of_nat (length es) /\
  NoDup es /\ StronglySorted Z.lt es.
Proof.
  intros fuel g dur nows last es l' H1 H2 H3.
  destruct (run_updates_spec fuel g dur nows last es l' H1 H2 H3) as [A [B _]].
  split; [exact A|]. split; [exact B|]. rewrite A. split; [apply zrange_nodup | apply zrange_sorted].
Qed.

(* CollectReward mints exactly the deposit and deletes it; collecting again fails *)
Theorem C11_collect_exact : forall ds a, deps_nonneg ds ->
  match collect ds a with
  | (Some ms, ds') =>
      dep_get a ds' = (0, 0) /\
      zsum (map snd (filter (fun m => fst m =? 0) ms)) = fst (dep_get a ds) /\
      zsum (map snd (filter (fun m => fst m =? 1) ms)) = snd (dep_get a ds) /\
      Forall (fun m => 0 < snd m) ms /\
      (forall b, b <> a -> dep_get b ds' = dep_get b ds) /\
      collect ds' a = (None, ds')
  | (None, ds') => ds' = ds /\ dep_get a ds = (0, 0)
  end.
Proof. exact collect_exact. Qed.

(* over any history of credits and collects on a contract: minted + still deposited = credited, per address and token *)
Theorem C11_rewards_conserved : forall tok, tok = 0 \/ tok = 1 -> forall ops ds minted ds' minted' a,
  deps_nonneg ds ->
  Forall (fun o => match o with Credit _ z q => 0 <= z /\ 0 <= q | Collect _ => True end) ops ->
  run_rops ops ds minted = (ds', minted') ->
  deps_nonneg ds' /\
  minted_of tok a minted' + tok_of tok (dep_get a ds') =
  minted_of tok a minted + tok_of tok (dep_get a ds) + credited tok a ops.
Proof. exact rewards_conserved. Qed.

(* the liquidity contract (method table before the bridge-and-liquidity spork), code after fix a732e8e: one Update
   rewards exactly LastEpoch+1 .. LastEpoch+k in order and stores LastEpoch+k, every rewarded epoch ended
   RewardTimeLimit before the acknowledged momentum, at most MaxEpochsPerUpdate/2 epochs per call, and it stops
   before a due epoch only because of that limit (the next Update continues with exactly that epoch) *)
Theorem C11_liquidity_cursor : forall fuel g dur now last es l',
  cursor_ok g dur last -> now < two62 ->
  liquidity_loop fuel g dur now last 0 = Some (es, l') ->
  es = zrange (last + 1) (length es) /\ l' = last + Z.of_nat (length es) /\
  Forall (fun e => epoch_end g dur e + RewardTimeLimit <= now) es /\
  cursor_ok g dur l' /\
  (es <> [] -> 2 * Z.of_nat (length es) < MaxEpochsPerUpdate + 2) /\
  (now < epoch_end g dur (l' + 1) + RewardTimeLimit \/ MaxEpochsPerUpdate <= 2 * Z.of_nat (length es)).
Proof.
  intros fuel g dur now last es l' H1 H2 H3.
  destruct (liquidity_loop_spec fuel g dur now last 0 es l' H1 H2 (Z.le_refl 0) H3) as [A [B [C [D [E F]]]]].
  split; [exact A|]. split; [exact B|]. split; [exact C|]. split; [exact D|].
  split; [intros X; specialize (E X); lia|]. destruct F as [F|F]; [left; exact F|right; lia].
Qed.

(* ... and every epoch issued by such a call - a call issues up to MaxEpochsPerUpdate/2 epochs, which may lie on both
   sides of a reward tick (epoch 30, 60, ...) - is minted the emission of ITS OWN epoch, which is within that epoch's
   network emission: the issued epochs are those of C11_liquidity_cursor and each (epoch, (znn, qsr)) satisfies
   LiquidityRewardForEpoch epoch = (znn, qsr) <= (NetworkZnnRewardPerEpoch epoch, NetworkQsrRewardPerEpoch epoch) *)
Theorem C11_liquidity_issues_the_emission_of_its_epoch : forall fuel g dur now last es l',
  cursor_ok g dur last -> now < two62 ->
  liquidity_loop fuel g dur now last 0 = Some (es, l') ->
  exists ms, liquidity_issue fuel g dur now last 0 = Some (Done (ms, l')) /\ map fst ms = es /\
    Forall (fun m => 0 <= fst m < two64 /\ LiquidityRewardForEpoch (fst m) = Ok (snd m) /\
              exists z q, NetworkZnnRewardPerEpoch (fst m) = Ok z /\ NetworkQsrRewardPerEpoch (fst m) = Ok q /\
                0 <= fst (snd m) <= z /\ 0 <= snd (snd m) <= q) ms.
Proof. intros fuel g dur now last es l'. exact (liquidity_issue_spec fuel g dur now last 0 es l'). Qed.

(* non-vacuity: 1 h epochs, cursor at 27, epochs 28..31 due: the call issues 28, 29 at the first tick's rate and
   30, 31 at the second tick's *)
Example C11_liquidity_issue_example :
  cursor_ok 1000000000 3600 27 /\
  liquidity_issue 20 1000000000 3600 (1000000000 + 32 * 3600 + 3600) 27 0 =
    Some (Done ([(28, (187200000000, 500000000000)); (29, (187200000000, 500000000000));
                 (30, (112320000000, 500000000000)); (31, (112320000000, 500000000000))], 31)).
Proof. split; [unfold cursor_ok, two62, two63; vm_compute; repeat split; discriminate | vm_compute; reflexivity]. Qed.

(* over any history of liquidity Updates: every epoch up to the cursor is rewarded exactly once, in order *)
Theorem C11_liquidity_once_per_epoch : forall fuel g dur nows last es l',
  cursor_ok g dur last -> Forall (fun now => now < two62) nows ->
  run_liquidity_updates fuel g dur nows last = Some (es, l') ->
  es = zrange (last + 1) (length es) /\ l' = last + Z.of_nat (length es) /\ NoDup es /\ StronglySorted Z.lt es.
Proof.
  intros fuel g dur nows last es l' H1 H2 H3.
  destruct (run_liquidity_updates_spec fuel g dur nows last es l' H1 H2 H3) as [A B].
  split; [exact A|]. split; [exact B|]. rewrite A. split; [apply zrange_nodup | apply zrange_sorted].
Qed.

(* record of the defect fixed in /repo a732e8e (known_findings.d/C11.json, fixed): the loop as it was did not satisfy
   the cursor statement: with more than MaxEpochsPerUpdate/2 epochs due it advanced the cursor past an epoch
   without minting its reward *)
Theorem C11_liquidity_cursor_refuted :
  exists g dur now last es l',
    cursor_ok g dur last /\ now < two62 /\
    liquidity_loop_old 100 g dur now last 0 = Some (es, l') /\
    l' <> last + Z.of_nat (length es).
Proof. exact liquidity_cursor_refuted. Qed.

(* non-vacuity: well-formed statistics with two pillars, one backer each; all hypotheses of C11_pillar_bounded hold
   and the routine completes *)
Example C11_pillar_example :
  let st := mkEstats 0 300 [mkPstat 1 10 12 100; mkPstat 2 12 12 200] in
  let infos := [mkPinfo 1 0 100 11; mkPinfo 2 50 50 12] in
  let ds := [mkPdetail 1 [(21, 60); (22, 40)]; mkPdetail 2 []] in
  stats_wf st /\ infos_wf infos /\ details_wf ds /\
  detailed_pillar_reward st infos ds =
    Done [(11, 833333330); (12, 819999998); (21, 159999999); (22, 106666666); (12, 819999998)].
Proof.
  cbv zeta. split; [|split; [|split]].
  - unfold stats_wf. cbn [es_pillars es_total_weight map ps_name ps_weight ps_expected ps_produced].
    split; [repeat constructor; cbn; intuition lia|]. split; [repeat constructor; cbn; lia|]. split; [cbn; lia|cbn; reflexivity].
  - unfold infos_wf. cbn. split; [repeat constructor; cbn; intuition lia | repeat constructor; cbn; lia].
  - unfold details_wf. cbn. split; [repeat constructor; cbn; intuition lia | repeat constructor; cbn; lia].
  - vm_compute. reflexivity.
Qed.

Example C11_cursor_example :
  cursor_ok 1000000000 3600 (-1) /\
  update_loop 10 1000000000 3600 (1000000000 + 3 * 3600 + 3600) (-1) = Some ([0; 1; 2], 2).
Proof. split; [unfold cursor_ok, two62, two63; vm_compute; repeat split; discriminate | vm_compute; reflexivity]. Qed.

(* ---- "The credited amounts are a function of the chain alone, so every node computes the same ones": the epoch
   statistics the pillar contract rewards from (consensus/points.go, model Points.v) do not depend on a node's past.
   Two nodes that reached the same chain by ANY two histories (other branches seen and abandoned, other statistics
   queries asked at other moments, restarts; stored points of abandoned branches still in their consensus DBs) answer
   alike for every election tick and for every finished epoch — rewards are computed for epochs that ended at least
   RewardTimeLimit ago. Hypotheses: hash collision freedom ([Hf] injective) and the election as a function of the
   chain (C05). *)
From ZV Require Points PointsProofs.
Theorem C11_statistics_identical_on_all_nodes :
  forall (gts dur mult : Z) (election : list Points.mom -> Z -> option Points.elect) (Hf : Z -> Z -> Z -> Z) (gen : Points.mom),
  (forall a b c a' b' c' : Z, Hf a b c = Hf a' b' c' -> a = a' /\ b = b' /\ c = c') ->
  (forall a b c : Z, Hf a b c <> Points.m_hash gen) -> 0 < dur -> 0 < mult ->
  forall ops1 ops2,
  PointsProofs.wf_ops gts dur mult election Hf (PointsProofs.init gen) ops1 ->
  PointsProofs.wf_ops gts dur mult election Hf (PointsProofs.init gen) ops2 ->
  let s1 := fst (Points.run gts dur mult election (PointsProofs.init gen) ops1) in
  let s2 := fst (Points.run gts dur mult election (PointsProofs.init gen) ops2) in
  Points.n_chain s1 = Points.n_chain s2 ->
  (forall t, snd (Points.step gts dur mult election s1 (Points.OPeriod t)) = snd (Points.step gts dur mult election s2 (Points.OPeriod t))) /\
  (forall e, Points.is_finished gts (Points.n_chain s1) (Points.edur dur mult) e = true ->
             snd (Points.step gts dur mult election s1 (Points.OEpoch e)) = snd (Points.step gts dur mult election s2 (Points.OEpoch e))).
Proof. exact PointsProofs.reachable_nodes_agree. Qed.

(* The store of an epoch point in compoundPoints.GetPoint is guarded by `if compound.IsFinished(tick)`, and the theorem
   above needs that guard. With it, a question about an epoch that is still running adds nothing to the epoch cache of the
   node that is asked ... *)
From ZV Require PointsStale.
Theorem C11_running_epoch_query_stores_nothing :
  forall (gts dur mult : Z) (election : list Points.mom -> Z -> option Points.elect) pc ec c e,
  Points.is_finished gts c (Points.edur dur mult) e = false ->
  forall e' p, Points.c_get (snd (Points.get_epoch gts dur mult election pc ec c e)) e' = Some p -> Points.c_get ec e' = Some p.
Proof. exact PointsStale.running_epoch_query_stores_nothing. Qed.

(* ... without it (PointsStale.get_epoch_g false; get_epoch_g true is Points.get_epoch by reflexivity) the EndHash test
   alone does not protect the cache: there is a chain c, a next momentum m behind the end of epoch e with nothing between
   the frontier of c and that end, such that the node that was asked for epoch e at c (running) and again at c ++ [m]
   (finished) answers differently from a node with an empty consensus DB on the same chain c ++ [m] - the stored point has
   the end block of the finished epoch but lacks the periods that had not started. The guarded code answers alike. *)
Theorem C11_epoch_store_guard_is_load_bearing :
  exists gts dur mult election c m e,
    let c' := c ++ [m] in
    Points.is_finished gts c (Points.edur dur mult) e = false /\ Points.is_finished gts c' (Points.edur dur mult) e = true /\
    (let '(_, pc1, ec1) := PointsStale.get_epoch_g gts dur mult election false [] [] c e in
     fst (fst (PointsStale.get_epoch_g gts dur mult election false pc1 ec1 c' e)) <> Points.fresh_epoch gts dur mult election c' e) /\
    (let '(_, pc1, ec1) := Points.get_epoch gts dur mult election [] [] c e in
     fst (fst (Points.get_epoch gts dur mult election pc1 ec1 c' e)) = Points.fresh_epoch gts dur mult election c' e).
Proof. exact PointsStale.unguarded_store_goes_stale. Qed.

(* the epoch cursor the theorems above are about is the code: CanPerformEpochUpdate / checkAndPerformUpdateEpoch /
   CanPerformUpdate (vm/embedded/implementation/common.go) as translated by go2coq on every run; the end time of epoch
   LastEpoch+1 (epoch ticker), the frontier momentum and the result of Save are inputs of the translations *)
Theorem C11_cursor_step_is_the_source : forall g dur now last saved,
  ZV.gen.PureCursor.checkAndPerformUpdateEpoch last
    (ZV.gen.PureCursor.CanPerformEpochUpdate 0 now (epoch_end g dur (GoSem.wrapS 64 (last + 1)))) saved =
  if update_due g dur now last then (saved, GoSem.wrapS 64 (last + 1))
  else (ZV.gen.Pure.Err_constants_ErrEpochUpdateTooRecent, last).
Proof. exact cursor_step_is_source. Qed.
Theorem C11_update_loop_is_the_source : forall k g dur now last,
  update_loop (S k) g dur now last =
  match ZV.gen.PureCursor.checkAndPerformUpdateEpoch last
          (ZV.gen.PureCursor.CanPerformEpochUpdate 0 now (epoch_end g dur (GoSem.wrapS 64 (last + 1)))) 0 with
  | (0, last') => match update_loop k g dur now last' with
                  | Some (es, l') => Some (last' :: es, l')
                  | None => None
                  end
  | (_, _) => Some ([], last)
  end.
Proof. exact update_loop_unfold_source. Qed.
Theorem C11_update_gate_is_the_source : forall h lastu,
  ZV.gen.PureCursor.CanPerformUpdate 0 h 0 lastu =
  if GoSem.wrapU 64 (lastu + ZV.gen.Consts.UpdateMinNumMomentums) <=? h then 0 else ZV.gen.Pure.Err_constants_ErrUpdateTooRecent.
Proof. exact update_gate_is_source. Qed.

