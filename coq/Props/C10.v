(* C10 — Locked funds are fully backed and released only to the entitled party, on time.
   Only statements; each is closed by a lemma proved in theories/. *)
From ZV Require Import Prelude GoSem Abi VmReceive VmReceiveProofs Emb EmbProofs Locks LocksProofs LocksBacked.
From ZV Require Import Liquidity LiquidityProofs Bridge BridgeProofs LockTermsProofs.
From ZV.gen Require Import Consts Pure PureRelease.
From ZV Require Import ReleaseSource.
From ZV Require Import EmbSource.
From ZV Require Import LocksSource.
Open Scope Z_scope.

(* ---- backing: for every history (queue) of calls processed by generateEmbeddedReceive - applied or refunded -
   the contract ends up holding, per token standard, at least the sum of its recorded entries.
   K_x a = keys unique /\ forall z, liab_x (a_store a) z <= bal_get (a_bal a) z.  [ef s] / [lf s] is the frontier
   momentum and the protocol constants under which send s is received (they may change from call to call). *)
Theorem C10_backed_stake : forall dc ef q a,
  (forall s, env_ok (ef s)) -> deliverable dc q -> nonneg sstore a -> J_stake a -> K_stake a ->
  exists a', process_all sstore dc (stake_lookup ef) a q = Some a' /\ K_stake a'.
Proof. exact stake_backed_history. Qed.
Theorem C10_backed_plasma : forall dc ef q a,
  deliverable dc q -> nonneg pstore a -> J_plasma a -> K_plasma a ->
  exists a', process_all pstore dc (plasma_lookup ef) a q = Some a' /\ K_plasma a'.
Proof. exact plasma_backed_history. Qed.
Theorem C10_backed_htlc : forall dc H ef q a,
  deliverable dc q -> nonneg hstore a -> J_htlc a -> K_htlc a ->
  exists a', process_all hstore dc (htlc_lookup H ef) a q = Some a' /\ K_htlc a'.
Proof. exact htlc_backed_history. Qed.
Theorem C10_backed_sentinel : forall dc lf q a,
  (forall s, lenv_ok (lf s)) -> deliverable dc q -> nonneg nstore a -> J_sentinel a -> K_sentinel a ->
  exists a', process_all nstore dc (sentinel_lookup lf) a q = Some a' /\ K_sentinel a'.
Proof. exact sentinel_backed_history. Qed.
(* pillar contract: Register, RegisterLegacy, Revoke, UpdatePillar, Delegate, Undelegate, DepositQsr, WithdrawQsr.
   J_pillar P = every amount >= 0 and an ACTIVE pillar holds exactly the pillar stake P (now itself preserved) *)
Theorem C10_backed_pillar : forall dc name_ok legacy_key P lf q a,
  0 <= P < two256 -> (forall s, penv_ok P (lf s)) -> deliverable dc q ->
  nonneg lstore a -> J_pillar P a -> K_pillar a ->
  exists a', process_all lstore dc (pillar_lookup name_ok legacy_key lf) a q = Some a' /\ J_pillar P a' /\ K_pillar a'.
Proof. exact pillar_backed_history. Qed.
Theorem C10_backed_qsr_deposits : forall dc self q a,
  deliverable dc q -> nonneg cstore a -> J_common a -> K_common a ->
  exists a', process_all cstore dc (common_lookup self) a q = Some a' /\ K_common a'.
Proof. exact common_backed_history. Qed.
(* what K says, spelled out for one contract *)
Theorem C10_backed_means : forall a z, K_htlc a -> liab_htlc (a_store a) z <= bal_get (a_bal a) z.
Proof. intros a z (_ & H). apply H. Qed.

(* the per-beneficiary fused total kept by the plasma contract is the sum of the beneficiary's fusion entries (as a
   uint256; plainly equal while that sum is below 2^256), along every history whose sends have fresh hashes *)
Theorem C10_fused_total : forall dc ef a, plasma_reach dc ef a ->
  nonneg pstore a /\ J_plasma a /\ K_plasma a /\ forall b, fused_of (a_store a) b = u256 (entries_of (a_store a) b).
Proof. exact fused_total. Qed.
Theorem C10_fused_total_exact : forall dc ef a b, plasma_reach dc ef a -> 0 <= entries_of (a_store a) b < two256 ->
  fused_of (a_store a) b = entries_of (a_store a) b.
Proof. exact fused_total_exact. Qed.

(* ---- release rules: success => guard *)
Theorem C10_cancel_stake_guard : forall e (a a' : cacct sstore) s ds,
  cancel_stake_receive e a s = MOk a' ds ->
  exists id ent, cancel_stake_validate s = VOk id /\ tget (a_store a) (s_from s ++ id) = Some ent /\
    k_exp ent <= e_now e /\
    ds = [{| d_to := s_from s; d_amount := k_amount ent; d_zts := ZtsZnn; d_data := [] |}] /\
    exists ent', tget (a_store a') (s_from s ++ id) = Some ent' /\ k_amount ent' = 0 /\ k_revoke ent' = e_now e /\
    a_bal a' = a_bal a.
Proof. exact cancel_stake_guard. Qed.
Theorem C10_cancel_fuse_guard : forall e (a a' : cacct pstore) s ds,
  cancel_fuse_receive e a s = MOk a' ds ->
  exists id ent, cancel_fuse_validate s = VOk id /\ tget (p_fusions (a_store a)) (s_from s ++ id) = Some ent /\
    f_exp ent <= e_height e /\
    ds = [{| d_to := s_from s; d_amount := f_amount ent; d_zts := ZtsQsr; d_data := [] |}] /\
    tget (p_fusions (a_store a')) (s_from s ++ id) = None.
Proof. exact cancel_fuse_guard. Qed.
Theorem C10_htlc_unlock_guard : forall (H : Z -> bytes -> bytes) e (a a' : cacct hstore) s ds,
  unlock_receive H e a s = MOk a' ds ->
  exists id pre ent, unlock_validate s = VOk (id, pre) /\ tget (h_entries (a_store a)) id = Some ent /\
    H (h_type ent) pre = h_lock ent /\ e_now e < h_exp ent /\ len pre <= h_keymax ent /\
    (proxy_allowed (a_store a) (h_hashlocked ent) = true \/ s_from s = h_hashlocked ent) /\
    ds = [{| d_to := h_hashlocked ent; d_amount := h_amount ent; d_zts := h_zts ent; d_data := [] |}] /\
    tget (h_entries (a_store a')) id = None.
Proof. exact unlock_guard. Qed.
Theorem C10_htlc_reclaim_guard : forall e (a a' : cacct hstore) s ds,
  reclaim_receive e a s = MOk a' ds ->
  exists id ent, reclaim_validate s = VOk id /\ tget (h_entries (a_store a)) id = Some ent /\
    s_from s = h_timelocked ent /\ h_exp ent <= e_now e /\
    ds = [{| d_to := h_timelocked ent; d_amount := h_amount ent; d_zts := h_zts ent; d_data := [] |}] /\
    tget (h_entries (a_store a')) id = None.
Proof. exact (reclaim_guard (fun _ _ => [])). Qed.
Theorem C10_pillar_revoke_guard : forall name_ok e (a a' : cacct lstore) s ds,
  pillar_revoke_receive name_ok e a s = MOk a' ds ->
  exists name p t, pillar_revoke_validate name_ok s = VOk name /\ tget (l_pillars (a_store a)) name = Some p /\
    l_revoke p = 0 /\ l_owner p = s_from s /\
    revoke_window (c_PillarLock e) (c_PillarRevoke e) (l_reg p) (l_now e) = Ok (true, t) /\
    ds = [{| d_to := l_owner p; d_amount := c_PillarStake e; d_zts := ZtsZnn; d_data := [] |}] /\
    exists p', tget (l_pillars (a_store a')) name = Some p' /\ l_amount p' = 0 /\ l_revoke p' = l_now e.
Proof. exact pillar_revoke_guard. Qed.
Theorem C10_sentinel_revoke_guard : forall e (a a' : cacct nstore) s ds,
  sentinel_revoke_receive e a s = MOk a' ds ->
  exists ent t, tget (n_ent (a_store a)) (s_from s) = Some ent /\ n_revoke ent = 0 /\
    revoke_window (c_SentinelLock e) (c_SentinelRevoke e) (n_reg ent) (l_now e) = Ok (true, t) /\
    ds = [{| d_to := s_from s; d_amount := n_znn ent; d_zts := ZtsZnn; d_data := [] |};
          {| d_to := s_from s; d_amount := n_qsr ent; d_zts := ZtsQsr; d_data := [] |}] /\
    exists ent', tget (n_ent (a_store a')) (s_from s) = Some ent' /\ n_znn ent' = 0 /\ n_qsr ent' = 0 /\ n_revoke ent' = l_now e.
Proof. exact sentinel_revoke_guard. Qed.
Theorem C10_withdraw_qsr_guard : forall self (a a' : cacct cstore) s ds,
  withdraw_qsr_receive self a s = MOk a' ds ->
  exists v, tget (q_dep (a_store a)) (s_from s) = Some v /\ v <> 0 /\
    ds = [{| d_to := s_from s; d_amount := v; d_zts := ZtsQsr; d_data := [] |}] /\
    tget (q_dep (a_store a')) (s_from s) = None.
Proof. exact withdraw_qsr_guard. Qed.

(* ---- the revoke windows: the model's window function is the go2coq translation of the Go functions, and for
   the constants dumped from /repo "can revoke" means: time since registration, modulo lock+revoke, >= lock *)
Theorem C10_pillar_window_is_translated : forall now reg,
  PillarGetRevokeStatus now reg = revoke_window Consts.PillarEpochLockTime Consts.PillarEpochRevokeTime reg now.
Proof. exact pillar_window_is_translated. Qed.
Theorem C10_sentinel_window_is_translated : forall reg now,
  GetSentinelRevokeStatus reg now = revoke_window Consts.SentinelLockTimeWindow Consts.SentinelRevokeTimeWindow reg now.
Proof. exact sentinel_window_is_translated. Qed.
Theorem C10_revoke_window : forall L R reg now b t,
  0 < L -> 0 < R -> L + R < two63 -> 0 <= now - reg < two63 ->
  revoke_window L R reg now = Ok (b, t) ->
  (b = true <-> L <= (now - reg) mod (L + R)) /\ (b = true -> 0 < t <= R) /\ (b = false -> 0 < t <= L).
Proof. exact revoke_window_spec. Qed.
Theorem C10_pillar_window : forall now reg b t, 0 <= now - reg < two63 ->
  PillarGetRevokeStatus now reg = Ok (b, t) ->
  (b = true <-> Consts.PillarEpochLockTime <= (now - reg) mod (Consts.PillarEpochLockTime + Consts.PillarEpochRevokeTime)) /\
  (b = true -> 0 < t <= Consts.PillarEpochRevokeTime) /\ (b = false -> 0 < t <= Consts.PillarEpochLockTime).
Proof. exact pillar_window_spec. Qed.
Theorem C10_sentinel_window : forall reg now b t, 0 <= now - reg < two63 ->
  GetSentinelRevokeStatus reg now = Ok (b, t) ->
  (b = true <-> Consts.SentinelLockTimeWindow <= (now - reg) mod (Consts.SentinelLockTimeWindow + Consts.SentinelRevokeTimeWindow)) /\
  (b = true -> 0 < t <= Consts.SentinelRevokeTimeWindow) /\ (b = false -> 0 < t <= Consts.SentinelLockTimeWindow).
Proof. exact sentinel_window_spec. Qed.

(* ---- never twice *)
Theorem C10_never_twice_htlc : forall (H : Z -> bytes -> bytes) e e' (a a' : cacct hstore) s ds id,
  (unlock_receive H e a s = MOk a' ds /\ (exists pre, unlock_validate s = VOk (id, pre))) \/
  (reclaim_receive e a s = MOk a' ds /\ reclaim_validate s = VOk id) ->
  forall s2, (forall pre2, unlock_validate s2 = VOk (id, pre2) -> unlock_receive H e' a' s2 = MErr E_nonexistent) /\
             (reclaim_validate s2 = VOk id -> reclaim_receive e' a' s2 = MErr E_nonexistent).
Proof. exact htlc_never_twice. Qed.
Theorem C10_never_twice_stake : forall e e' (a a' a'' : cacct sstore) s s2 ds ds2 id,
  cancel_stake_receive e a s = MOk a' ds -> cancel_stake_validate s = VOk id ->
  s_from s2 = s_from s -> cancel_stake_validate s2 = VOk id ->
  cancel_stake_receive e' a' s2 = MOk a'' ds2 ->
  ds2 = [{| d_to := s_from s; d_amount := 0; d_zts := ZtsZnn; d_data := [] |}].
Proof. exact stake_never_twice. Qed.
Theorem C10_never_twice_fuse : forall e e' (a a' : cacct pstore) s s2 ds id,
  cancel_fuse_receive e a s = MOk a' ds -> cancel_fuse_validate s = VOk id ->
  s_from s2 = s_from s -> cancel_fuse_validate s2 = VOk id ->
  cancel_fuse_receive e' a' s2 = MErr E_nonexistent.
Proof. exact fuse_never_twice. Qed.
Theorem C10_never_twice_sentinel : forall e e' (a a' : cacct nstore) s s2 ds,
  sentinel_revoke_receive e a s = MOk a' ds -> s_from s2 = s_from s -> l_now e <> 0 ->
  forall a'' ds2, sentinel_revoke_receive e' a' s2 <> MOk a'' ds2.
Proof. exact sentinel_never_twice. Qed.
Theorem C10_never_twice_pillar : forall name_ok e e' (a a' : cacct lstore) s s2 ds name,
  pillar_revoke_receive name_ok e a s = MOk a' ds -> pillar_revoke_validate name_ok s = VOk name ->
  pillar_revoke_validate name_ok s2 = VOk name -> l_now e <> 0 ->
  pillar_revoke_receive name_ok e' a' s2 = MErr E_not_active.
Proof. exact pillar_never_twice. Qed.
Theorem C10_never_twice_withdraw_qsr : forall self (a a' : cacct cstore) s s2 ds x,
  withdraw_qsr_receive self a s = MOk a' ds -> s_from s2 = s_from s -> withdraw_qsr_validate s2 = VOk x ->
  withdraw_qsr_receive self a' s2 = MErr E_nothing_to_withdraw.
Proof. exact withdraw_qsr_never_twice. Qed.

(* ================================================================ liquidity stakes (vm/embedded/implementation/liquidity.go)
   K_liq a = keys unique /\ forall z, liab_liquidity (a_store a) z <= bal_get (a_bal a) z, where liab_liquidity sums the stake
   entries per token.  Histories of LiquidityStake, CancelLiquidityStake, UnlockLiquidityStakeEntries, SetIsHalted and
   Donate (liq_lookup); [zstr] is ZenonTokenStandard.String(), [ef s] the frontier momentum / constants at the receive of s.
   lq_env_ok: StakeTimeUnitSec > 0 and StakeTimeMaxSec < 13 units (the weights table has 13 entries). *)
Theorem C10_backed_liquidity : forall dc zstr ef q a,
  (forall s, lq_env_ok (ef s)) -> deliverable dc q -> nonneg qstore a -> J_liq a -> K_liq a ->
  exists a', process_all qstore dc (liq_lookup zstr ef) a q = Some a' /\ J_liq a' /\ K_liq a'.
Proof. exact liquidity_backed_history. Qed.
Theorem C10_backed_liquidity_means : forall a z, K_liq a -> liab_liquidity (a_store a) z <= bal_get (a_bal a) z.
Proof. intros a z (_ & H). apply H. Qed.
(* KNOWN FINDING liquidity-treasury-spent-below-stakes: with the treasury methods Fund / BurnZnn in the history (modelled as
   the code is: they test the whole balance) the backing fails once ZNN is a stake token: a history of three applied calls
   (stake 10 ZNN, donate 10 units of QSR, spork address funds 4 ZNN + 1) after which the contract owes 10 ZNN and holds 6,
   and the matured cancellation is rolled back for insufficient balance *)
Theorem C10_liquidity_treasury_refuted :
  exists (q : list send) (a a' : cacct qstore),
    deliverable tr_dc q /\ nonneg qstore a /\ J_liq a /\ K_liq a /\ lq_env_ok tr_env /\
    process_all qstore tr_dc (liq_lookup_all tr_zstr tr_spork true (fun _ => tr_env)) a q = Some a' /\
    liab_liquidity (a_store a') ZtsZnn = 1000000000 /\ bal_get (a_bal a') ZtsZnn = 600000000 /\
    exists a'' c, generate_receive qstore tr_dc (liq_lookup_all tr_zstr tr_spork true (fun _ => tr_late)) a' tr_cancel = RRefunded a'' [] c /\
                  c = E_insufficient_balance /\ liab_liquidity (a_store a'') ZtsZnn = 1000000000.
Proof. exact liquidity_treasury_refuted. Qed.
Theorem C10_fund_ignores_stakes : forall sp (a : cacct qstore) s znn qsr,
  fund_validate sp s = VOk (znn, qsr) -> znn <= bal_get (a_bal a) ZtsZnn -> qsr <= bal_get (a_bal a) ZtsQsr ->
  fund_receive sp true a s = MOk a [donate_call znn ZtsZnn; donate_call qsr ZtsQsr].
Proof. exact fund_ignores_stakes. Qed.

(* release rule: only the sender's own entry (the key contains the sender), not before its expiration, exactly the entry's
   amount in the entry's token, to the sender; the entry is closed (amount 0, revoke time = now) *)
Theorem C10_cancel_liquidity_stake_guard : forall e (a a' : cacct qstore) s ds,
  cancel_liquidity_receive e a s = MOk a' ds ->
  exists id ent, cancel_liquidity_validate s = VOk id /\ tget (lq_entries (a_store a)) (s_from s ++ id) = Some ent /\
    ls_exp ent <= e_now e /\
    ds = [{| d_to := s_from s; d_amount := ls_amount ent; d_zts := ls_zts ent; d_data := [] |}] /\
    exists ent', tget (lq_entries (a_store a')) (s_from s ++ id) = Some ent' /\ ls_amount ent' = 0 /\ ls_revoke ent' = e_now e /\
    a_bal a' = a_bal a.
Proof. exact cancel_liquidity_guard. Qed.
Theorem C10_never_twice_liquidity : forall e e' (a a' a'' : cacct qstore) s s2 ds ds2 id,
  cancel_liquidity_receive e a s = MOk a' ds -> cancel_liquidity_validate s = VOk id ->
  s_from s2 = s_from s -> cancel_liquidity_validate s2 = VOk id ->
  cancel_liquidity_receive e' a' s2 = MOk a'' ds2 ->
  exists z, ds2 = [{| d_to := s_from s; d_amount := 0; d_zts := z; d_data := [] |}].
Proof. exact liquidity_never_twice. Qed.
Theorem C10_liquidity_stake_guard : forall zstr e (a a' : cacct qstore) s ds,
  liquidity_stake_receive zstr e a s = MOk a' ds ->
  exists t ent, liquidity_stake_validate e s = VOk t /\ ds = [] /\ a_bal a' = a_bal a /\
    tuple_check (lq_tuples (a_store a)) (zstr (s_zts s)) (s_amount s) = None /\
    tget (lq_entries (a_store a')) (s_from s ++ s_hash s) = Some ent /\
    ls_amount ent = u256 (s_amount s) /\ ls_zts ent = s_zts s /\ ls_start ent = e_now e /\ ls_revoke ent = 0 /\ ls_exp ent = wrapS 64 (e_now e + t).
Proof. exact liquidity_stake_guard. Qed.
Theorem C10_liquidity_stake_token_configured : forall ts zs amount, tuple_check ts zs amount = None ->
  exists t, In t ts /\ lt_zts t = zs /\ lt_min t <= amount.
Proof. exact tuple_check_none. Qed.
(* the administrator's unlock moves no value and changes no amount, owner or token: only expirations of the named token,
   only downwards to now *)
Theorem C10_unlock_liquidity_guard : forall e (a a' : cacct qstore) s ds,
  unlock_liquidity_receive e a s = MOk a' ds ->
  s_from s = lq_admin (a_store a) /\ ds = [] /\ a_bal a' = a_bal a /\
  forall k, match tget (lq_entries (a_store a)) k, tget (lq_entries (a_store a')) k with
            | Some x, Some y => ls_amount y = ls_amount x /\ ls_zts y = ls_zts x /\ ls_revoke y = ls_revoke x /\ ls_start y = ls_start x /\
                                (ls_exp y = ls_exp x \/ (ls_zts x = s_zts s /\ e_now e < ls_exp x /\ ls_exp y = e_now e))
            | None, None => True
            | _, _ => False
            end.
Proof. exact unlock_liquidity_guard. Qed.

(* ================================================================ bridge unwrap requests (vm/embedded/implementation/bridge.go)
   [sigcheck s] = 0 iff the ECDSA signature carried by s verifies against the TSS key over the request's fields
   (observed from the real code in the correspondence check). *)
Theorem C10_unwrap_guard : forall zstr sigcheck e (a a' : cacct bstore) s ds,
  unwrap_receive zstr sigcheck e a s = MOk a' ds ->
  exists class chain tx log to tok amount sig nw p,
    unwrap_validate s = VOk (class, chain, tx, log, to, tok, amount, sig) /\
    sigcheck s = 0 /\ can_perform (a_store a) (e_height e) = None /\
    tget (b_unwraps (a_store a)) (unwrap_key tx log) = None /\
    get_network (a_store a) class chain = Some nw /\ find_pair_unwrap zstr (nw_pairs nw) (to_lower tok) = Some p /\ tp_redeemable p = true /\
    ds = [] /\ a_bal a' = a_bal a /\
    tget (b_unwraps (a_store a')) (unwrap_key tx log) =
      Some {| u_reg := e_height e; u_class := class; u_chain := chain; u_to := to; u_tokaddr := to_lower tok; u_zts := tp_zts p;
              u_amount := amount; u_sig := sig; u_redeemed := 0; u_revoked := 0 |}.
Proof. exact unwrap_guard. Qed.
(* Redeem pays only: an existing request, neither redeemed nor revoked, on an initialised bridge that is not halted, after
   the redeem delay of the request's token pair, exactly the request's amount to the request's recipient (transfer, or Mint
   call for an owned pair), and marks the request redeemed *)
Theorem C10_redeem_guard : forall e (a a' : cacct bstore) s ds,
  redeem_receive e a s = MOk a' ds ->
  exists tx log req nw p,
    redeem_validate s = VOk (tx, log) /\
    tget (b_unwraps (a_store a)) (unwrap_key tx log) = Some req /\
    u_redeemed req <= 0 /\ u_revoked req <= 0 /\
    can_perform (a_store a) (e_height e) = None /\
    get_network (a_store a) (u_class req) (u_chain req) = Some nw /\
    find_pair_redeem (nw_pairs nw) req = Some p /\
    tp_delay p <= u64 (e_height e - u_reg req) /\
    (tp_owned p = false -> u_amount req <= bal_get (a_bal a) (tp_zts p)) /\
    ds = [redeem_payout p req] /\
    tget (b_unwraps (a_store a')) (unwrap_key tx log) = Some (redeemed_of req) /\
    a_bal a' = a_bal a.
Proof. exact redeem_guard. Qed.
Theorem C10_redeem_payout_means : forall p req,
  redeem_payout p req = if tp_owned p
    then {| d_to := AddrTokenContract; d_amount := 0; d_zts := tp_zts p; d_data := mint_data (tp_zts p) (u_amount req) (u_to req) |}
    else {| d_to := u_to req; d_amount := u_amount req; d_zts := tp_zts p; d_data := [] |}.
Proof. reflexivity. Qed.
Theorem C10_never_twice_redeem : forall e e' (a a' : cacct bstore) s s2 ds tx log,
  redeem_receive e a s = MOk a' ds -> redeem_validate s = VOk (tx, log) -> redeem_validate s2 = VOk (tx, log) ->
  forall a'' ds2, redeem_receive e' a' s2 <> MOk a'' ds2.
Proof. exact redeem_never_twice. Qed.
Theorem C10_revoke_guard : forall (a a' : cacct bstore) s ds,
  revoke_receive a s = MOk a' ds ->
  exists tx log req, revoke_validate s = VOk (tx, log) /\ tget (b_unwraps (a_store a)) (unwrap_key tx log) = Some req /\
    s_from s = b_admin (a_store a) /\ ds = [] /\ a_bal a' = a_bal a /\
    tget (b_unwraps (a_store a')) (unwrap_key tx log) = Some (revoked_of req).
Proof. exact revoke_guard. Qed.
Theorem C10_revoked_request_never_redeemed : forall e' (a a' : cacct bstore) s s2 ds tx log,
  revoke_receive a s = MOk a' ds -> revoke_validate s = VOk (tx, log) -> redeem_validate s2 = VOk (tx, log) ->
  forall a'' ds2, redeem_receive e' a' s2 <> MOk a'' ds2.
Proof. exact revoked_never_redeemed. Qed.
(* ... and along every later history of UnwrapToken / Redeem / RevokeUnwrapRequest calls: every call gets its receive block,
   a request that is redeemed or revoked (closed) stays so, and a closed request is never paid *)
Theorem C10_closed_request_stays_closed : forall dc zstr sigcheck ef q a k,
  deliverable dc q -> nonneg bstore a -> J_bridge a -> closed (a_store a) k ->
  exists a', process_all bstore dc (bridge_lookup zstr sigcheck ef) a q = Some a' /\ J_bridge a' /\ closed (a_store a') k.
Proof. exact bridge_closed_history. Qed.
Theorem C10_closed_request_never_paid : forall e (a : cacct bstore) s tx log,
  redeem_validate s = VOk (tx, log) -> closed (a_store a) (unwrap_key tx log) ->
  forall a' ds, redeem_receive e a s <> MOk a' ds.
Proof. exact redeem_closed_refused. Qed.

(* non-vacuity: with the real constants a pillar registered at time 1000 can be revoked only in the last
   PillarEpochRevokeTime seconds of each lock+revoke cycle *)
Example C10_pillar_window_example :
  PillarGetRevokeStatus (1000 + Consts.PillarEpochLockTime - 1) 1000 = Ok (false, 1) /\
  PillarGetRevokeStatus (1000 + Consts.PillarEpochLockTime) 1000 = Ok (true, Consts.PillarEpochRevokeTime).
Proof. vm_compute. split; reflexivity. Qed.

(* ---- the release rules proved DIRECTLY about the code: the ReceiveBlock methods that pay locked funds out are translated
   from /repo's source by go2coq on every run (gen/PureRelease.v; oracles: the entry read from storage, the frontier
   momentum, the window verdicts, the hash comparison, the results of Save / Delete); a result is (descendant blocks as
   (ToAddress, Amount, TokenStandard), error, written entry fields, effects). See theories/ReleaseSource.v. *)
Theorem C10_source_cancel_stake_payout : forall rt amt v u g f exp now sv owner bl rt' amt' eff,
  CancelStake_receive rt amt v u g f exp now sv owner = Ok (bl, 0, rt', amt', eff) ->
  bl = [(owner, amt, ZnnTokenStandard)] /\ exp <= now /\ v = 0 /\ g = 0 /\
  rt' = now /\ amt' = 0 /\ eff = Some 1.
Proof. exact cancel_stake_payout. Qed.
Theorem C10_source_cancel_stake_refusal : forall rt amt v u g f exp now sv owner bl e rt' amt' eff,
  CancelStake_receive rt amt v u g f exp now sv owner = Ok (bl, e, rt', amt', eff) -> e <> 0 ->
  bl = [] /\ rt' = rt /\ amt' = amt /\ eff = None.
Proof. exact cancel_stake_refusal. Qed.
Theorem C10_source_cancel_stake_twice : forall rt amt v u g f exp now sv owner bl rt' amt' eff now2 sv2 bl2 e2 rt2 amt2 eff2,
  CancelStake_receive rt amt v u g f exp now sv owner = Ok (bl, 0, rt', amt', eff) ->
  CancelStake_receive rt' amt' v u g f exp now2 sv2 owner = Ok (bl2, e2, rt2, amt2, eff2) ->
  bl2 = [] \/ bl2 = [(owner, 0, ZnnTokenStandard)].
Proof. exact cancel_stake_twice. Qed.
Theorem C10_source_cancel_fuse_payout : forall fa v u f g exph h ge amt d1 d2 sender sv bl fa' e1 e2 e3,
  CancelFuse_receive fa v u f g exph h ge amt d1 d2 sender sv = Ok (bl, 0, fa', e1, e2, e3) ->
  bl = [(sender, amt, QsrTokenStandard)] /\ exph <= h /\ v = 0 /\ g = 0 /\
  fa' = fa - amt /\ e1 = Some 1 /\ (e2 = Some 1 \/ e3 = Some 1).
Proof. exact cancel_fuse_payout. Qed.
Theorem C10_source_cancel_fuse_refusal : forall fa v u f g exph h ge amt d1 d2 sender sv bl e fa' e1 e2 e3,
  CancelFuse_receive fa v u f g exph h ge amt d1 d2 sender sv = Ok (bl, e, fa', e1, e2, e3) -> e <> 0 ->
  bl = [] /\ fa' = fa /\ e1 = None /\ e2 = None /\ e3 = None.
Proof. exact cancel_fuse_refusal. Qed.
Theorem C10_source_cancel_fuse_deleted : forall fa v u f exph h ge amt d1 d2 sender sv r,
  CancelFuse_receive fa v u f Err_constants_ErrDataNonExistent exph h ge amt d1 d2 sender sv = Ok r ->
  fst (fst (fst (fst (fst r)))) = [].
Proof. exact cancel_fuse_deleted. Qed.
Theorem C10_source_withdraw_qsr_payout : forall v g qsr d owner bl eff,
  WithdrawQsr_receive v g qsr d owner = Ok (bl, 0, eff) ->
  bl = [(owner, qsr, QsrTokenStandard)] /\ qsr <> 0 /\ v = 0 /\ eff = Some 1.
Proof. exact withdraw_qsr_payout. Qed.
Theorem C10_source_withdraw_qsr_refusal : forall v g qsr d owner bl e eff,
  WithdrawQsr_receive v g qsr d owner = Ok (bl, e, eff) -> e <> 0 -> bl = [] /\ eff = None.
Proof. exact withdraw_qsr_refusal. Qed.
Theorem C10_source_reclaim_htlc_payout : forall v u g tl sender f now exp d amt zts bl eff,
  ReclaimHtlc_receive v u g tl sender f now exp d amt zts = Ok (bl, 0, eff) ->
  bl = [(tl, amt, zts)] /\ tl = sender /\ exp <= now /\ v = 0 /\ g = 0 /\ eff = Some 1.
Proof. exact reclaim_htlc_payout. Qed.
Theorem C10_source_reclaim_htlc_refusal : forall v u g tl sender f now exp d amt zts bl e eff,
  ReclaimHtlc_receive v u g tl sender f now exp d amt zts = Ok (bl, e, eff) -> e <> 0 -> bl = [] /\ eff = None.
Proof. exact reclaim_htlc_refusal. Qed.
Theorem C10_source_unlock_htlc_payout : forall v u g proxy pe sender hl f now exp plen kmax ht heq d amt zts bl eff,
  UnlockHtlc_receive v u g proxy pe sender hl f now exp plen kmax ht heq d amt zts = Ok (bl, 0, eff) ->
  bl = [(hl, amt, zts)] /\ (proxy = true \/ sender = hl) /\ now < exp /\ plen <= wrapS 64 kmax /\ heq = true /\
  v = 0 /\ g = 0 /\ eff = Some 1.
Proof. exact unlock_htlc_payout. Qed.
Theorem C10_source_unlock_htlc_refusal : forall v u g proxy pe sender hl f now exp plen kmax ht heq d amt zts bl e eff,
  UnlockHtlc_receive v u g proxy pe sender hl f now exp plen kmax ht heq d amt zts = Ok (bl, e, eff) -> e <> 0 ->
  bl = [] /\ eff = None.
Proof. exact unlock_htlc_refusal. Qed.
Theorem C10_source_revoke_sentinel_payout : forall rts v f nn can until znn qsr now owner bl rts' znn' qsr' eff,
  RevokeSentinel_receive rts znn qsr v f nn can until now owner = Ok (bl, 0, rts', znn', qsr', eff) ->
  bl = [(owner, znn, ZnnTokenStandard); (owner, qsr, QsrTokenStandard)] /\ nn = true /\ rts = 0 /\ can = true /\
  rts' = now /\ znn' = 0 /\ qsr' = 0 /\ eff = Some 1.
Proof. exact revoke_sentinel_payout. Qed.
Theorem C10_source_revoke_sentinel_twice : forall rts v f nn can until znn qsr now owner bl rts' znn' qsr' eff v2 f2 can2 until2 now2 r,
  0 < now ->
  RevokeSentinel_receive rts znn qsr v f nn can until now owner = Ok (bl, 0, rts', znn', qsr', eff) ->
  RevokeSentinel_receive rts' znn' qsr' v2 f2 nn can2 until2 now2 owner = Ok r ->
  fst (fst (fst (fst (fst r)))) = [].
Proof. exact revoke_sentinel_twice. Qed.
Theorem C10_source_revoke_pillar_payout : forall rt amt v u g active stake sender f status left now sv bl rt' amt' eff,
  RevokePillar_receive rt amt v u g active stake sender f status left now sv = Ok (bl, 0, rt', amt', eff) ->
  bl = [(stake, PillarStakeAmount, ZnnTokenStandard)] /\ active = true /\ stake = sender /\ status = true /\
  rt' = now /\ amt' = 0 /\ eff = Some 1.
Proof. exact revoke_pillar_payout. Qed.
Theorem C10_source_revoke_pillar_refusal : forall rt amt v u g active stake sender f status left now sv bl e rt' amt' eff,
  RevokePillar_receive rt amt v u g active stake sender f status left now sv = Ok (bl, e, rt', amt', eff) -> e <> 0 ->
  bl = [] /\ rt' = rt /\ amt' = amt /\ eff = None.
Proof. exact revoke_pillar_refusal. Qed.
Example C10_source_release_examples :
  CancelStake_receive 0 100 0 0 0 0 50 60 0 7 = Ok ([(7, 100, ZnnTokenStandard)], 0, 60, 0, Some 1) /\
  CancelFuse_receive 100 0 0 0 0 5 9 0 40 0 0 7 0 = Ok ([(7, 40, QsrTokenStandard)], 0, 60, Some 1, None, Some 1) /\
  WithdrawQsr_receive 0 0 33 0 7 = Ok ([(7, 33, QsrTokenStandard)], 0, Some 1) /\
  ReclaimHtlc_receive 0 0 0 7 7 0 60 50 0 10 3 = Ok ([(7, 10, 3)], 0, Some 1) /\
  UnlockHtlc_receive 0 0 0 false 0 8 8 0 40 50 32 32 0 true 0 10 3 = Ok ([(8, 10, 3)], 0, Some 1) /\
  RevokeSentinel_receive 0 5 6 0 0 true true 0 60 7 = Ok ([(7, 5, ZnnTokenStandard); (7, 6, QsrTokenStandard)], 0, 60, 0, 0, Some 1) /\
  RevokePillar_receive 0 15 0 0 0 true 7 7 0 true 0 60 0 = Ok ([(7, PillarStakeAmount, ZnnTokenStandard)], 0, 60, 0, Some 1).
Proof. exact release_examples. Qed.
Theorem C10_source_cancel_liquidity_stake_payout : forall rt amt v u g f exp now sv owner zts bl rt' amt' eff,
  CancelLiquidityStake_receive rt amt v u g f exp now sv owner zts = Ok (bl, 0, rt', amt', eff) ->
  bl = [(owner, amt, zts)] /\ exp <= now /\ v = 0 /\ g = 0 /\ rt' = now /\ amt' = 0 /\ eff = Some 1.
Proof. exact cancel_liquidity_stake_payout. Qed.
Theorem C10_source_cancel_liquidity_stake_refusal : forall rt amt v u g f exp now sv owner zts bl e rt' amt' eff,
  CancelLiquidityStake_receive rt amt v u g f exp now sv owner zts = Ok (bl, e, rt', amt', eff) -> e <> 0 ->
  bl = [] /\ rt' = rt /\ amt' = amt /\ eff = None.
Proof. exact cancel_liquidity_stake_refusal. Qed.
Theorem C10_source_cancel_liquidity_stake_twice : forall rt amt v u g f exp now sv owner zts bl rt' amt' eff now2 sv2 bl2 e2 rt2 amt2 eff2,
  CancelLiquidityStake_receive rt amt v u g f exp now sv owner zts = Ok (bl, 0, rt', amt', eff) ->
  CancelLiquidityStake_receive rt' amt' v u g f exp now2 sv2 owner zts = Ok (bl2, e2, rt2, amt2, eff2) ->
  bl2 = [] \/ bl2 = [(owner, 0, zts)].
Proof. exact cancel_liquidity_stake_twice. Qed.
(* the QSR deposit behind a pillar / sentinel registration: DepositQsr adds exactly the received amount; checkAndConsumeQsr
   (pillar.Register, sentinel.Register) never takes more than is deposited, and a refusal leaves the deposit untouched *)
Theorem C10_source_deposit_qsr_adds : forall q v g amt sv bl q' eff,
  DepositQsr_receive q v g amt sv = Ok (bl, 0, q', eff) -> bl = [] /\ v = 0 /\ q' = q + amt /\ eff = Some 1.
Proof. exact deposit_qsr_adds. Qed.
Theorem C10_source_deposit_qsr_refusal : forall q v g amt sv bl e q' eff,
  DepositQsr_receive q v g amt sv = Ok (bl, e, q', eff) -> e <> 0 -> bl = [] /\ q' = q /\ eff = None.
Proof. exact deposit_qsr_refusal. Qed.
Theorem C10_source_consume_qsr_success : forall req q g d sv q' ed es,
  checkAndConsumeQsr req q g d sv = Ok (0, q', ed, es) ->
  req <= q /\ q' = q - req /\
  ((q' = 0 /\ ed = Some 1 /\ es = None) \/ (q' <> 0 /\ ed = None /\ es = Some 1)).
Proof. exact consume_qsr_success. Qed.
Theorem C10_source_consume_qsr_refusal : forall req q g d sv e q' ed es,
  checkAndConsumeQsr req q g d sv = Ok (e, q', ed, es) -> e <> 0 -> q < req /\ q' = q /\ ed = None /\ es = None.
Proof. exact consume_qsr_refusal. Qed.

(* ---- the LOCKING calls: an accepted lock is one the rules allow, for EVERY argument (the period is an ABI int64: negative,
   zero, huge values included; now + period is computed with wrap-around in the model as in Go), and the entry records the
   call.  Together with the release guards: nothing is paid out before the contract's minimum lock, and an htlc opens only
   on a preimage under a supported hash function. *)
Theorem C10_stake_period_rule : forall e s t, stake_validate e s = VOk t ->
  c_StakeTimeMin e <= t <= c_StakeTimeMax e /\ c_StakeTimeUnit e <> 0 /\ Z.rem t (c_StakeTimeUnit e) = 0 /\
  c_StakeMinAmount e <= s_amount s /\ s_zts s = ZtsZnn.
Proof. exact stake_period_rule. Qed.
Theorem C10_stake_guard : forall e (a a' : cacct sstore) s ds,
  stake_receive e a s = MOk a' ds ->
  exists t ent, stake_validate e s = VOk t /\ ds = [] /\ a_bal a' = a_bal a /\
    tget (a_store a') (s_from s ++ s_hash s) = Some ent /\
    k_amount ent = u256 (s_amount s) /\ k_start ent = e_now e /\ k_revoke ent = 0 /\ k_exp ent = wrapS 64 (e_now e + t).
Proof. exact stake_guard. Qed.
Theorem C10_stake_minimum_lock : forall e (a a' : cacct sstore) s ds,
  stake_receive e a s = MOk a' ds -> - two63 <= e_now e -> e_now e + c_StakeTimeMax e < two63 -> 0 <= c_StakeTimeMin e ->
  exists ent, tget (a_store a') (s_from s ++ s_hash s) = Some ent /\ k_start ent = e_now e /\
    k_start ent + c_StakeTimeMin e <= k_exp ent <= k_start ent + c_StakeTimeMax e.
Proof. exact stake_minimum_lock. Qed.
Theorem C10_stake_never_released_before_minimum_lock : forall e e' (a a' b b' : cacct sstore) s s2 ds ds2 id ent,
  stake_receive e a s = MOk a' ds -> - two63 <= e_now e -> e_now e + c_StakeTimeMax e < two63 -> 0 <= c_StakeTimeMin e ->
  tget (a_store a') (s_from s ++ s_hash s) = Some ent ->
  cancel_stake_validate s2 = VOk id -> tget (a_store b) (s_from s2 ++ id) = Some ent ->
  cancel_stake_receive e' b s2 = MOk b' ds2 ->
  e_now e + c_StakeTimeMin e <= e_now e'.
Proof. exact stake_never_released_before_minimum_lock. Qed.
Theorem C10_liquidity_period_rule : forall e s t, liquidity_stake_validate e s = VOk t ->
  c_StakeTimeMin e <= t <= c_StakeTimeMax e /\ c_StakeTimeUnit e <> 0 /\ Z.rem t (c_StakeTimeUnit e) = 0.
Proof. exact liquidity_period_rule. Qed.
Theorem C10_liquidity_stake_minimum_lock : forall zstr e (a a' : cacct qstore) s ds,
  liquidity_stake_receive zstr e a s = MOk a' ds -> - two63 <= e_now e -> e_now e + c_StakeTimeMax e < two63 -> 0 <= c_StakeTimeMin e ->
  exists ent, tget (lq_entries (a_store a')) (s_from s ++ s_hash s) = Some ent /\ ls_start ent = e_now e /\
    ls_start ent + c_StakeTimeMin e <= ls_exp ent <= ls_start ent + c_StakeTimeMax e.
Proof. exact liquidity_stake_minimum_lock. Qed.
(* entry untouched between stake and cancel - in particular not unlocked by the administrator (C10_unlock_liquidity_guard) *)
Theorem C10_liquidity_stake_never_released_before_minimum_lock : forall zstr e e' (a a' b b' : cacct qstore) s s2 ds ds2 id ent,
  liquidity_stake_receive zstr e a s = MOk a' ds -> - two63 <= e_now e -> e_now e + c_StakeTimeMax e < two63 -> 0 <= c_StakeTimeMin e ->
  tget (lq_entries (a_store a')) (s_from s ++ s_hash s) = Some ent ->
  cancel_liquidity_validate s2 = VOk id -> tget (lq_entries (a_store b)) (s_from s2 ++ id) = Some ent ->
  cancel_liquidity_receive e' b s2 = MOk b' ds2 ->
  e_now e + c_StakeTimeMin e <= e_now e'.
Proof. exact liquidity_stake_never_released_before_minimum_lock. Qed.
Theorem C10_htlc_create_guard : forall e (a a' : cacct hstore) s ds,
  create_receive e a s = MOk a' ds ->
  exists hl exp ty kmax lock ent, create_validate s = VOk (hl, exp, ty, kmax, lock) /\
    (ty = HashTypeSHA3 \/ ty = HashTypeSHA256) /\ len lock = 32 /\ e_now e < exp /\ s_amount s <> 0 /\
    ds = [] /\ a_bal a' = a_bal a /\
    tget (h_entries (a_store a')) (s_hash s) = Some ent /\
    h_timelocked ent = s_from s /\ h_hashlocked ent = hl /\ h_zts ent = s_zts s /\ h_amount ent = u256 (s_amount s) /\
    h_exp ent = exp /\ h_type ent = ty /\ h_keymax ent = kmax /\ h_lock ent = lock.
Proof. exact create_guard. Qed.
Theorem C10_created_htlc_needs_supported_preimage : forall (H : Z -> bytes -> bytes) e e' (a a' b b' : cacct hstore) s s2 ds ds2 id pre ent,
  create_receive e a s = MOk a' ds -> tget (h_entries (a_store a')) (s_hash s) = Some ent ->
  unlock_validate s2 = VOk (id, pre) -> tget (h_entries (a_store b)) id = Some ent ->
  unlock_receive H e' b s2 = MOk b' ds2 ->
  (h_type ent = HashTypeSHA3 \/ h_type ent = HashTypeSHA256) /\ len (h_lock ent) = 32 /\ H (h_type ent) pre = h_lock ent /\
  e_now e' < h_exp ent /\ ds2 = [{| d_to := h_hashlocked ent; d_amount := h_amount ent; d_zts := h_zts ent; d_data := [] |}].
Proof. exact created_htlc_needs_supported_preimage. Qed.
(* the side conditions hold for the frontier times and constants of a chain: e.g. the values of the shortened test regime *)
Example C10_minimum_lock_conditions_example :
  let e := {| e_now := 1000000000; e_height := 100; c_FuseMinAmount := 1000000000; c_CostPerFusionUnit := 1000000000; c_FuseExpiration := 6;
              c_StakeMinAmount := 100000000; c_StakeTimeMin := 30; c_StakeTimeMax := 360; c_StakeTimeUnit := 30; c_TokenIssueAmount := 100000000 |} in
  - two63 <= e_now e /\ e_now e + c_StakeTimeMax e < two63 /\ 0 <= c_StakeTimeMin e.
Proof. cbv. repeat split; discriminate. Qed.

(* the hand model's stake cancel (Emb.v: the model of the backing theorems over all queues, tied to the real node by
   differential evaluation) IS the translated source: same payout, same refusals, same written entry *)
Theorem C10_cancel_stake_is_the_source : forall (num : bytes -> Z) (e : env) (a : cacct sstore) (s : send),
  match cancel_stake_validate s with
  | VErr c =>
      cancel_stake_receive e a s = MErr c /\
      (c <> 0 -> forall rt amt u g f exp now sv own,
         CancelStake_receive rt amt c u g f exp now sv own = GoSem.Ok (nil, c, rt, amt, None))
  | VPanic => cancel_stake_receive e a s = MPanic
  | VOk id =>
      match tget (a_store a) (s_from s ++ id) with
      | None =>
          cancel_stake_receive e a s = MErr E_nonexistent /\
          forall rt amt f exp now sv own,
            CancelStake_receive rt amt 0 0 Err_constants_ErrDataNonExistent f exp now sv own =
            GoSem.Ok (nil, Err_constants_ErrDataNonExistent, rt, amt, None)
      | Some ent =>
          let src := CancelStake_receive (k_revoke ent) (k_amount ent) 0 0 0 0 (k_exp ent) (e_now e) 0 (num (s_from s)) in
          if e_now e <? k_exp ent then
            cancel_stake_receive e a s = MErr E_revoke_not_due /\
            src = GoSem.Ok (nil, Err_constants_RevokeNotDue, k_revoke ent, k_amount ent, None)
          else
            exists a',
              cancel_stake_receive e a s =
                MOk a' [{| d_to := s_from s; d_amount := k_amount ent; d_zts := ZtsZnn; d_data := [] |}] /\
              src = GoSem.Ok ([(num (s_from s), k_amount ent, ZnnTokenStandard)], 0, e_now e, 0, Some 1) /\
              (exists ent', tget (a_store a') (s_from s ++ id) = Some ent' /\
                 k_amount ent' = 0 /\ k_revoke ent' = e_now e /\ k_exp ent' = k_exp ent)
      end
  end.
Proof. exact cancel_stake_is_source. Qed.
Theorem C10_withdraw_qsr_is_the_source : forall (num : bytes -> Z) (self : bytes) (a : cacct cstore) (s : send),
  let cur := match tget (q_dep (a_store a)) (s_from s) with Some v => v | None => 0 end in
  match withdraw_qsr_validate s with
  | VErr c =>
      withdraw_qsr_receive self a s = MErr c /\
      (c <> 0 -> forall g q d own, WithdrawQsr_receive c g q d own = GoSem.Ok (nil, c, None))
  | VPanic => withdraw_qsr_receive self a s = MPanic
  | VOk _ =>
      let src := WithdrawQsr_receive 0 0 cur 0 (num (s_from s)) in
      if cur =? 0 then
        withdraw_qsr_receive self a s = MErr E_nothing_to_withdraw /\
        src = GoSem.Ok (nil, Err_constants_ErrNothingToWithdraw, None)
      else
        exists a',
          withdraw_qsr_receive self a s = MOk a' [{| d_to := s_from s; d_amount := cur; d_zts := ZtsQsr; d_data := [] |}] /\
          src = GoSem.Ok ([(num (s_from s), cur, QsrTokenStandard)], 0, Some 1) /\
          tget (q_dep (a_store a')) (s_from s) = None
  end.
Proof. exact withdraw_qsr_is_source. Qed.
(* DepositQsr: the source adds exactly the received amount; the model stores it as a uint256 (the same number below 2^256) *)
Theorem C10_deposit_qsr_is_the_source : forall (a : cacct cstore) (s : send),
  let cur := match tget (q_dep (a_store a)) (s_from s) with Some v => v | None => 0 end in
  match deposit_qsr_validate s with
  | VErr c =>
      deposit_qsr_receive a s = MErr c /\
      (c <> 0 -> forall q g amt sv, DepositQsr_receive q c g amt sv = GoSem.Ok (nil, c, q, None))
  | VPanic => deposit_qsr_receive a s = MPanic
  | VOk _ =>
      exists a',
        deposit_qsr_receive a s = MOk a' [] /\
        DepositQsr_receive cur 0 0 (s_amount s) 0 = GoSem.Ok (nil, 0, cur + s_amount s, Some 1) /\
        tget (q_dep (a_store a')) (s_from s) = Some (u256 (cur + s_amount s))
  end.
Proof. exact deposit_qsr_is_source. Qed.

(* plasma.CancelFuse, htlc.Reclaim, htlc.Unlock of the hand model = the translated source (num: injective encoding of
   addresses as numbers; H: the hash function of the HTLC contract) *)
Theorem C10_cancel_fuse_is_the_source : forall (num : bytes -> Z) (e : env) (a : cacct pstore) (s : send) ,
    match cancel_fuse_validate s with
    | VErr c =>
        cancel_fuse_receive e a s = MErr c /\
        (c <> 0 -> forall fa u f g exph h ge amt d1 d2 own sv,
           CancelFuse_receive fa c u f g exph h ge amt d1 d2 own sv = GoSem.Ok (nil, c, fa, None, None, None))
    | VPanic => cancel_fuse_receive e a s = MPanic
    | VOk id =>
        match tget (p_fusions (a_store a)) (s_from s ++ id) with
        | None =>
            cancel_fuse_receive e a s = MErr E_nonexistent /\
            forall fa exph h ge amt d1 d2 own sv,
              CancelFuse_receive fa 0 0 0 Err_constants_ErrDataNonExistent exph h ge amt d1 d2 own sv =
              GoSem.Ok (nil, Err_constants_ErrDataNonExistent, fa, None, None, None)
        | Some ent =>
            let fused := match tget (p_fused (a_store a)) (f_ben ent) with Some v => v | None => 0 end in
            let src := CancelFuse_receive fused 0 0 0 0 (f_exp ent) (e_height e) 0 (f_amount ent) 0 0 (num (s_from s)) 0 in
            if e_height e <? f_exp ent then
              cancel_fuse_receive e a s = MErr E_revoke_not_due /\
              src = GoSem.Ok (nil, Err_constants_RevokeNotDue, fused, None, None, None)
            else
              exists a',
                cancel_fuse_receive e a s =
                  MOk a' [{| d_to := s_from s; d_amount := f_amount ent; d_zts := ZtsQsr; d_data := [] |}] /\
                src = GoSem.Ok ([(num (s_from s), f_amount ent, QsrTokenStandard)], 0, fused - f_amount ent, Some 1,
                          (if fused - f_amount ent =? 0 then Some 1 else None),
                          (if fused - f_amount ent =? 0 then None else Some 1)) /\
                tget (p_fusions (a_store a')) (s_from s ++ id) = None /\
                tget (p_fused (a_store a')) (f_ben ent) =
                  (if fused - f_amount ent =? 0 then None else Some (u256 (fused - f_amount ent)))
        end
    end.

Proof. exact cancel_fuse_is_source. Qed.
Theorem C10_reclaim_htlc_is_the_source : forall (num : bytes -> Z) (num_inj : forall x y, num x = num y -> x = y) (e : env) (a : cacct hstore) (s : send) ,
    match reclaim_validate s with
    | VErr c =>
        reclaim_receive e a s = MErr c /\
        (c <> 0 -> forall u g tl sender f now exp d amt zts,
           ReclaimHtlc_receive c u g tl sender f now exp d amt zts = GoSem.Ok (nil, c, None))
    | VPanic => reclaim_receive e a s = MPanic
    | VOk id =>
        match tget (h_entries (a_store a)) id with
        | None =>
            reclaim_receive e a s = MErr E_nonexistent /\
            forall tl sender f now exp d amt zts,
              ReclaimHtlc_receive 0 0 Err_constants_ErrDataNonExistent tl sender f now exp d amt zts =
              GoSem.Ok (nil, Err_constants_ErrDataNonExistent, None)
        | Some ent =>
            let src := ReclaimHtlc_receive 0 0 0 (num (h_timelocked ent)) (num (s_from s)) 0 (e_now e) (h_exp ent) 0
                         (h_amount ent) (num (h_zts ent)) in
            match reclaim_receive e a s with
            | MOk a' ds =>
                ds = [{| d_to := h_timelocked ent; d_amount := h_amount ent; d_zts := h_zts ent; d_data := [] |}] /\
                src = GoSem.Ok ([(num (h_timelocked ent), h_amount ent, num (h_zts ent))], 0, Some 1) /\
                tget (h_entries (a_store a')) id = None
            | MErr c =>
                (c = E_permission /\ src = GoSem.Ok (nil, Err_constants_ErrPermissionDenied, None)) \/
                (c = E_reclaim_not_due /\ src = GoSem.Ok (nil, Err_constants_ReclaimNotDue, None))
            | MPanic => False
            end
        end
    end.

Proof. intros num num_inj. exact (reclaim_htlc_is_source (fun _ x => x) num num_inj). Qed.
Theorem C10_unlock_htlc_is_the_source : forall (H : Z -> bytes -> bytes) (num : bytes -> Z) (num_inj : forall x y, num x = num y -> x = y) (e : env) (a : cacct hstore) (s : send) ,
    match unlock_validate s with
    | VErr c =>
        unlock_receive H e a s = MErr c /\
        (c <> 0 -> forall u g proxy pe sender hl f now exp plen kmax ht heq d amt zts,
           UnlockHtlc_receive c u g proxy pe sender hl f now exp plen kmax ht heq d amt zts = GoSem.Ok (nil, c, None))
    | VPanic => unlock_receive H e a s = MPanic
    | VOk (id, pre) =>
        match tget (h_entries (a_store a)) id with
        | None =>
            unlock_receive H e a s = MErr E_nonexistent /\
            forall proxy pe sender hl f now exp plen kmax ht heq d amt zts,
              UnlockHtlc_receive 0 0 Err_constants_ErrDataNonExistent proxy pe sender hl f now exp plen kmax ht heq d amt zts =
              GoSem.Ok (nil, Err_constants_ErrDataNonExistent, None)
        | Some ent =>
            0 <= h_keymax ent < 256 ->
            let src := UnlockHtlc_receive 0 0 0 (proxy_allowed (a_store a) (h_hashlocked ent)) 0 (num (s_from s))
                         (num (h_hashlocked ent)) 0 (e_now e) (h_exp ent) (len pre) (h_keymax ent) (h_type ent)
                         (bytes_eqb (H (h_type ent) pre) (h_lock ent)) 0 (h_amount ent) (num (h_zts ent)) in
            match unlock_receive H e a s with
            | MOk a' ds =>
                ds = [{| d_to := h_hashlocked ent; d_amount := h_amount ent; d_zts := h_zts ent; d_data := [] |}] /\
                src = GoSem.Ok ([(num (h_hashlocked ent), h_amount ent, num (h_zts ent))], 0, Some 1) /\
                tget (h_entries (a_store a')) id = None
            | MErr c =>
                (c = E_permission /\ src = GoSem.Ok (nil, Err_constants_ErrPermissionDenied, None)) \/
                (c = E_expired /\ src = GoSem.Ok (nil, Err_constants_ErrExpired, None)) \/
                (c = E_preimage /\ src = GoSem.Ok (nil, Err_constants_ErrInvalidPreimage, None))
            | MPanic => False
            end
        end
    end.

Proof. intros H num num_inj. exact (unlock_htlc_is_source H num num_inj). Qed.

(* sentinel.Revoke and pillar.Revoke of the hand model (Locks.v / Pillar.v) = the translated source; the window verdict, an
   oracle input of the translations, is the model's revoke_window (itself proved equal to the translated
   GetSentinelRevokeStatus / PillarGetRevokeStatus above) *)
Theorem C10_sentinel_revoke_is_the_source : forall (num : bytes -> Z) (e : lenv) (a : cacct nstore) (s : send) ,
    match sentinel_revoke_validate s with
    | VErr c =>
        sentinel_revoke_receive e a s = MErr c /\
        (c <> 0 -> forall rts znn qsr f nn can until now own,
           RevokeSentinel_receive rts znn qsr c f nn can until now own = GoSem.Ok (nil, c, rts, znn, qsr, None))
    | VPanic => sentinel_revoke_receive e a s = MPanic
    | VOk _ =>
        match tget (n_ent (a_store a)) (s_from s) with
        | None =>
            sentinel_revoke_receive e a s = MErr E_nonexistent /\
            forall rts znn qsr can until now own,
              RevokeSentinel_receive rts znn qsr 0 0 false can until now own =
              GoSem.Ok (nil, Err_constants_ErrDataNonExistent, rts, znn, qsr, None)
        | Some ent =>
            match revoke_window (c_SentinelLock e) (c_SentinelRevoke e) (n_reg ent) (l_now e) with
            | GoSem.Panic => True
            | GoSem.Ok (can, until) =>
                let src := RevokeSentinel_receive (n_revoke ent) (n_znn ent) (n_qsr ent) 0 0 true can until (l_now e) (num (s_from s)) in
                match sentinel_revoke_receive e a s with
                | MOk a' ds =>
                    ds = [{| d_to := s_from s; d_amount := n_znn ent; d_zts := ZtsZnn; d_data := [] |};
                          {| d_to := s_from s; d_amount := n_qsr ent; d_zts := ZtsQsr; d_data := [] |}] /\
                    src = GoSem.Ok ([(num (s_from s), n_znn ent, ZnnTokenStandard); (num (s_from s), n_qsr ent, QsrTokenStandard)],
                              0, l_now e, 0, 0, Some 1) /\
                    (exists ent', tget (n_ent (a_store a')) (s_from s) = Some ent' /\
                       n_revoke ent' = l_now e /\ n_znn ent' = 0 /\ n_qsr ent' = 0)
                | MErr c =>
                    (c = E_already_revoked /\ src = GoSem.Ok (nil, Err_constants_ErrAlreadyRevoked, n_revoke ent, n_znn ent, n_qsr ent, None)) \/
                    (c = E_revoke_not_due /\ src = GoSem.Ok (nil, Err_constants_RevokeNotDue, n_revoke ent, n_znn ent, n_qsr ent, None))
                | MPanic => False
                end
            end
        end
    end.

Proof. exact sentinel_revoke_is_source. Qed.
Theorem C10_pillar_revoke_is_the_source : forall (name_ok : bytes -> bool) (num : bytes -> Z) (num_inj : forall x y, num x = num y -> x = y) (e : lenv) (a : cacct lstore) (s : send) ,
    c_PillarStake e = PillarStakeAmount ->
    match pillar_revoke_validate name_ok s with
    | VErr c =>
        pillar_revoke_receive name_ok e a s = MErr c /\
        (c <> 0 -> forall rt amt u g act stake sender f st lft now sv,
           RevokePillar_receive rt amt c u g act stake sender f st lft now sv = GoSem.Ok (nil, c, rt, amt, None))
    | VPanic => pillar_revoke_receive name_ok e a s = MPanic
    | VOk name =>
        match tget (l_pillars (a_store a)) name with
        | None =>
            pillar_revoke_receive name_ok e a s = MErr E_nonexistent /\
            forall rt amt act stake sender f st lft now sv,
              RevokePillar_receive rt amt 0 0 Err_constants_ErrDataNonExistent act stake sender f st lft now sv =
              GoSem.Ok (nil, Err_constants_ErrDataNonExistent, rt, amt, None)
        | Some p =>
            match revoke_window (c_PillarLock e) (c_PillarRevoke e) (l_reg p) (l_now e) with
            | GoSem.Panic => True
            | GoSem.Ok (can, lft) =>
                let src := RevokePillar_receive (l_revoke p) (l_amount p) 0 0 0 (l_revoke p =? 0) (num (l_owner p))
                             (num (s_from s)) 0 can lft (l_now e) 0 in
                match pillar_revoke_receive name_ok e a s with
                | MOk a' ds =>
                    ds = [{| d_to := l_owner p; d_amount := c_PillarStake e; d_zts := ZtsZnn; d_data := [] |}] /\
                    src = GoSem.Ok ([(num (l_owner p), PillarStakeAmount, ZnnTokenStandard)], 0, l_now e, 0, Some 1) /\
                    (exists p', tget (l_pillars (a_store a')) name = Some p' /\ l_revoke p' = l_now e /\ l_amount p' = 0)
                | MErr c =>
                    (c = E_not_active /\ src = GoSem.Ok (nil, Err_constants_ErrNotActive, l_revoke p, l_amount p, None)) \/
                    (c = E_permission /\ src = GoSem.Ok (nil, Err_constants_ErrPermissionDenied, l_revoke p, l_amount p, None)) \/
                    (c = E_revoke_not_due /\ src = GoSem.Ok (nil, Err_constants_RevokeNotDue, l_revoke p, l_amount p, None))
                | MPanic => False
                end
            end
        end
    end.

Proof. exact pillar_revoke_is_source. Qed.
Theorem C10_cancel_liquidity_stake_is_the_source : forall (num : bytes -> Z) (e : env) (a : cacct qstore) (s : send) ,
    match cancel_liquidity_validate s with
    | VErr c =>
        cancel_liquidity_receive e a s = MErr c /\
        (c <> 0 -> forall rt amt u g f exp now sv own zts,
           CancelLiquidityStake_receive rt amt c u g f exp now sv own zts = GoSem.Ok (nil, c, rt, amt, None))
    | VPanic => cancel_liquidity_receive e a s = MPanic
    | VOk id =>
        match tget (lq_entries (a_store a)) (s_from s ++ id) with
        | None =>
            cancel_liquidity_receive e a s = MErr E_nonexistent /\
            forall rt amt f exp now sv own zts,
              CancelLiquidityStake_receive rt amt 0 0 Err_constants_ErrDataNonExistent f exp now sv own zts =
              GoSem.Ok (nil, Err_constants_ErrDataNonExistent, rt, amt, None)
        | Some ent =>
            let src := CancelLiquidityStake_receive (ls_revoke ent) (ls_amount ent) 0 0 0 0 (ls_exp ent) (e_now e) 0
                         (num (s_from s)) (num (ls_zts ent)) in
            if e_now e <? ls_exp ent then
              cancel_liquidity_receive e a s = MErr E_revoke_not_due /\
              src = GoSem.Ok (nil, Err_constants_RevokeNotDue, ls_revoke ent, ls_amount ent, None)
            else
              exists a',
                cancel_liquidity_receive e a s =
                  MOk a' [{| d_to := s_from s; d_amount := ls_amount ent; d_zts := ls_zts ent; d_data := [] |}] /\
                src = GoSem.Ok ([(num (s_from s), ls_amount ent, num (ls_zts ent))], 0, e_now e, 0, Some 1) /\
                (exists ent', tget (lq_entries (a_store a')) (s_from s ++ id) = Some ent' /\
                   ls_amount ent' = 0 /\ ls_revoke ent' = e_now e /\ ls_exp ent' = ls_exp ent /\ ls_zts ent' = ls_zts ent)
        end
    end.

Proof. exact cancel_liquidity_is_source. Qed.
