(* C17 — Spork-gated rules switch on by chain height only, identically everywhere.
   Only statements; each is closed by a lemma proved in theories/SporkProofs.v.
   The method tables are the lists dumped from the node's in-memory maps (gen/Consts.v) on every run. *)
From ZV Require Import Prelude GoSem Spork SporkProofs.
From ZV.gen Require Import Consts.
Open Scope Z_scope.

(* a spork is active for a block exactly when the store of the momentum the block acknowledges is above
   height 1 and holds an activated entry of that id whose enforcement height is at most that store's height *)
Theorem C17_active_iff : forall st id,
  is_active st id = true <->
  ms_height st <> 1 /\ exists s, In s (ms_sporks st) /\ sp_id s = id /\ sp_activated s = true /\ sp_enf s <= ms_height st.
Proof. exact is_active_iff. Qed.

(* switches on by height and never off: later momentum of the chain (activated entries are kept) *)
Theorem C17_active_monotone : forall h h' l l' id,
  2 <= h <= h' -> keeps_activated l l' ->
  is_active (mkMstore h l) id = true -> is_active (mkMstore h' l') id = true.
Proof. exact is_active_monotone. Qed.

(* the method table (and with it accept/reject at send time, execute/refund at receive time) is a function of
   the three activity bits of the acknowledged momentum's store only *)
Theorem C17_send_receive_agree : forall st1 st2 im embedded c sel,
  (forall k, is_active st1 (id_of im k) = is_active st2 (id_of im k)) ->
  get_embedded_method st1 im embedded c sel = get_embedded_method st2 im embedded c sel /\
  (send_reaches_method st1 im true c sel = true <-> receive_path_of st2 im c sel = Execute).
Proof. exact send_receive_agree. Qed.

(* a send whose method was found is executed (never refunded for a missing method) at every store in which
   at least the same sporks are enforced, i.e. at every later momentum of the chain *)
Theorem C17_accepted_send_is_executed : forall st st' im c sel,
  (forall k, is_active st (id_of im k) = true -> is_active st' (id_of im k) = true) ->
  send_reaches_method st im true c sel = true -> receive_path_of st' im c sel = Execute.
Proof. exact accepted_send_is_executed. Qed.

(* Activate: designated key (community key only inside its height window), enforcement height = acknowledged
   height + SporkMinHeightDelay, not active below it, active from it on, no second activation *)
Theorem C17_activation_rules : forall s az uo h start end_ id l l',
  sp_wf l -> 0 <= h -> h + SporkMinHeightDelay < two64 ->
  activate_receive s az uo h start end_ id l = inr l' ->
  s <> OtherKey /\ (s = CommunityKey -> start <= h < end_) /\
  (exists x, In x l /\ sp_id x = id /\ sp_activated x = false) /\
  In (mkSpork id true (h + SporkMinHeightDelay)) l' /\
  (forall y, sp_id y <> id -> (In y l' <-> In y l)) /\
  sp_wf l' /\ keeps_activated l l' /\
  (forall h', h' < h + SporkMinHeightDelay -> is_active (mkMstore h' l') id = false) /\
  (forall h', 2 <= h' -> h + SporkMinHeightDelay <= h' -> is_active (mkMstore h' l') id = true) /\
  (forall s2 az2 uo2 h2 st2 en2, exists e, activate_receive s2 az2 uo2 h2 st2 en2 id l' = inl e).
Proof. exact activation_rules. Qed.

Theorem C17_creation_rules : forall s az data h start end_ new_id l l',
  sp_wf l -> ~ In new_id (map sp_id l) ->
  create_receive s az data h start end_ new_id l = inr l' ->
  s <> OtherKey /\ (s = CommunityKey -> start <= h < end_) /\
  sp_wf l' /\ keeps_activated l l' /\
  (forall y, In y l' <-> y = mkSpork new_id false 0 \/ In y l) /\
  (forall h', is_active (mkMstore h' l') new_id = false).
Proof. exact creation_rules. Qed.

(* at start-up (chain.Init) and after every stored momentum (AddMomentumTransaction) the node halts iff an
   activated spork whose enforcement height is reached is not implemented; in particular whenever a spork is
   active for blocks of that store and unknown *)
Theorem C17_halt_on_unknown : forall st implemented,
  (check_sporks st implemented = Halted <->
   exists s, In s (ms_sporks st) /\ sp_activated s = true /\ sp_enf s <= ms_height st /\ ~ In (sp_id s) implemented) /\
  (forall id, is_active st id = true -> ~ In id implemented -> check_sporks st implemented = Halted).
Proof. exact halt_on_unknown. Qed.

(* over any chain: the node never stores a further momentum on top of a store with an unknown enforced spork *)
Theorem C17_node_stops : forall implemented stores done fin,
  run_node implemented stores = (done, fin) ->
  (exists rest, stores = done ++ rest) /\
  (forall pre st post, done = pre ++ st :: post -> post <> [] -> check_sporks st implemented = Running) /\
  (fin = Halted -> exists pre st, done = pre ++ [st] /\ check_sporks st implemented = Halted) /\
  (fin = Running -> done = stores /\ Forall (fun st => check_sporks st implemented = Running) stores).
Proof. exact node_stops. Qed.

(* from the enforcement height of its own spork on, a gated method is available; ungated methods always are *)
Theorem C17_available_when_active : forall st im c sel k, 0 <= sel < two32 ->
  guard_of c sel = GatedBy k -> is_active st (id_of im k) = true -> get_embedded_method st im true c sel = Found.
Proof. exact available_when_active. Qed.
Theorem C17_ungated_always_available : forall st im c sel, 0 <= sel < two32 ->
  guard_of c sel = Ungated -> get_embedded_method st im true c sel = Found.
Proof. exact ungated_always_available. Qed.

(* the property for the named features of the binary (selectors and tables dumped from the running code): with
   the sporks enforced in nesting order each spork-gated method is available exactly at the stores where its own
   spork is enforced - unavailable below the enforcement height, available from it on - and the original methods
   are always available *)
Theorem C17_features_switch_on_at_enforcement : forall st im, nesting_order st im ->
  (available_enc st im FeatureAcceleratorCreateProject = true <-> is_active st (id_accelerator im) = true) /\
  (available_enc st im FeatureLiquidityFund = true <-> is_active st (id_accelerator im) = true) /\
  (available_enc st im FeatureBridgeWrapToken = true <-> is_active st (id_bridge im) = true) /\
  (available_enc st im FeatureBridgeRedeem = true <-> is_active st (id_bridge im) = true) /\
  (available_enc st im FeatureLiquidityStake = true <-> is_active st (id_bridge im) = true) /\
  (available_enc st im FeatureHtlcCreate = true <-> is_active st (id_htlc im) = true) /\
  (available_enc st im FeatureHtlcUnlock = true <-> is_active st (id_htlc im) = true) /\
  available_enc st im FeaturePlasmaFuse = true /\ available_enc st im FeatureSporkActivate = true /\
  available_enc st im FeaturePillarCollectReward = true.
Proof. exact features_switch_on_at_enforcement. Qed.

(* FINDING (known_findings.d/C17.json, key method-available-without-its-own-spork; DESIGN section 6, F12):
   "available only if its own spork is enforced" does NOT hold: the tables are built on each other
   (htlc on bridge-and-liquidity on accelerator), so with only the HTLC spork enforced every method that the
   bridge-and-liquidity (and accelerator) spork introduces is callable. *)
Theorem C17_gated_by_own_spork_refuted :
  exists st im c sel, ~ gated_by_own_spork st im c sel.
Proof. exact gated_by_own_spork_refuted. Qed.

(* ... it holds whenever the sporks are enforced in the order in which the tables are nested *)
Theorem C17_gated_by_own_spork_partial : forall st im c sel,
  nesting_order st im -> gated_by_own_spork st im c sel.
Proof. exact gated_by_own_spork_partial. Qed.

(* non-vacuity *)
Example C17_activation_example :
  sp_wf [mkSpork 7 false 0] /\
  activate_receive SporkKey true true 20 0 0 7 [mkSpork 7 false 0] = inr [mkSpork 7 true (20 + SporkMinHeightDelay)] /\
  is_active (mkMstore (20 + SporkMinHeightDelay - 1) [mkSpork 7 true (20 + SporkMinHeightDelay)]) 7 = false /\
  is_active (mkMstore (20 + SporkMinHeightDelay) [mkSpork 7 true (20 + SporkMinHeightDelay)]) 7 = true.
Proof. split; [repeat constructor; cbn; tauto|]. repeat split; vm_compute; reflexivity. Qed.

Example C17_nesting_example :
  nesting_order (mkMstore 10 [mkSpork 1 true 3; mkSpork 3 true 5]) (mkImpl 1 2 3) /\
  regime_of (mkMstore 10 [mkSpork 1 true 3; mkSpork 3 true 5]) (mkImpl 1 2 3) = Bridge.
Proof. split; [split; vm_compute; intros; congruence | vm_compute; reflexivity]. Qed.

(* the activity test the theorems above are about is the code: momentumStore.IsSporkActive (chain/momentum/embedded.go)
   as translated by go2coq on every run, loop included; frontier momentum and the defined sporks are its inputs *)
Theorem C17_is_active_is_the_source : forall h l id,
  ZV.gen.PureSpork.IsSporkActive 0 h 0 id (map (fun s => (sp_activated s, sp_enf s, sp_id s)) l) =
  (is_active (mkMstore h l) id, 0).
Proof. exact is_active_is_source. Qed.
Theorem C17_is_active_errors_propagate : forall e1 h e2 id items,
  e1 <> 0 \/ (h <> 1 /\ e2 <> 0) -> exists e, e <> 0 /\ ZV.gen.PureSpork.IsSporkActive e1 h e2 id items = (false, e).
Proof. exact is_active_errors_propagate. Qed.

