(* C02 — Replay determinism: same momentums in, byte-identical ledger out.
   Only statements; each is closed by a lemma proved in theories/. [exec] is the deterministic execution of a
   momentum's account blocks over a store, [patch_hash] the hash of the resulting state changes (both arbitrary). *)
From ZV Require Import Prelude GoSem Election Replay ReplayProofs.
Open Scope Z_scope.

(* The change set a block / momentum commits to is a function of the FINAL content of the overlay: any two write
   sequences (any order, overwrites, deletions) with the same last write per key produce the same patch. *)
Theorem C02_patch_canonical :
  forall ops1 ops2, (forall k, last_write ops1 k = last_write ops2 k) -> changes ops1 = changes ops2.
Proof. exact patch_canonical. Qed.

(* Conversely the patch pins down the final content (nothing is lost, nothing else is in it): two write sequences commit to the
   same patch EXACTLY when every key ends with the same value — written, deleted or untouched ... *)
Theorem C02_patch_determines_final_content :
  forall ops1 ops2, changes ops1 = changes ops2 <-> (forall k, last_write ops1 k = last_write ops2 k).
Proof. exact patch_canonical_iff. Qed.

(* ... a lookup in the patch is the last write of that key, and the patch lists every written key once, in bytewise key order *)
Theorem C02_patch_is_final_overlay_in_key_order :
  forall ops, (forall k, ov_get (changes ops) k = last_write ops k) /\ ksorted (changes ops).
Proof. intros ops. split; [intros k; apply changes_get | apply changes_sorted]. Qed.

(* For every chain produced by an honest producer and any two delivery schedules of it WITHOUT variant gossip
   (batch boundaries, overlaps, re-deliveries, unlinkable batches, gossip of genuine account blocks before or after,
   restarts anywhere): the store is the producer's own state at the reached height; nodes that got equally far hold
   the same store and answer every query alike. By induction over the schedule. *)
Theorem C02_replay_deterministic_partial :
  forall (state : Type) (exec : state -> list ablock -> state) (patch_hash : state -> list ablock -> Z) s0 ch,
  produced state exec patch_hash s0 ch ->
  forall es1 es2, Forall (ev_ok ch) es1 -> Forall (ev_ok ch) es2 ->
  let n1 := fst (run state exec patch_hash (init state s0) es1) in
  let n2 := fst (run state exec patch_hash (init state s0) es2) in
  n_store state n1 = canon state exec s0 ch (n_height state n1) /\
  (n_height state n1 = n_height state n2 ->
   n_store state n1 = n_store state n2 /\
   forall (Q A : Type) (query : state -> Q -> A) q, query (n_store state n1) q = query (n_store state n2) q).
Proof. exact replay_deterministic. Qed.

(* A momentum produced by the honest producer is accepted by every node that has its predecessor, whatever genuine
   blocks that node has pooled and however it got there. *)
Theorem C02_producer_accepted_partial :
  forall (state : Type) (exec : state -> list ablock -> state) (patch_hash : state -> list ablock -> Z) s0 ch,
  produced state exec patch_hash s0 ch ->
  forall es m, Forall (ev_ok ch) es ->
  let n := fst (run state exec patch_hash (init state s0) es) in
  nth_error ch (n_height state n) = Some m ->
  exists n', step state exec patch_hash n (Deliver (n_height state n) [m]) = (n', None) /\
             n_height state n' = S (n_height state n) /\
             n_store state n' = canon state exec s0 ch (S (n_height state n)).
Proof. exact producer_accepted. Qed.

(* KNOWN FINDING F10 (key user-block-changeshash-variant, shared with C13): with ONE gossiped variant of a user block
   (same hash, other bytes outside the hash) both sentences fail: the producer's momentum is refused by the node that
   pooled the variant, and the two nodes end with different ledgers. *)
Theorem C02_variant_refuted :
  produced c_state c_exec c_patch_hash [] ex_chain /\
  let r1 := run c_state c_exec c_patch_hash (mkN c_state [] 0%nat []) ex_sched_plain in
  let r2 := run c_state c_exec c_patch_hash (mkN c_state [] 0%nat []) ex_sched_variant in
  snd r1 = [None] /\ n_height c_state (fst r1) = 1%nat /\
  snd r2 = [None; Some 0%nat] /\
  n_store c_state (fst r1) <> n_store c_state (fst r2).
Proof. exact variant_refuted. Qed.

(* non-vacuity: the plain schedule is a schedule without variant gossip in the sense of the partial theorems *)
Example C02_plain_schedule_ok : Forall (ev_ok ex_chain) ex_sched_plain.
Proof. repeat constructor. exists 1%nat. reflexivity. Qed.
