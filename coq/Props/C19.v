(* C19 — Wallet key files: exact round-trip, tamper-evident, deterministic derivation.
   Only statements; each is closed by a lemma proved in theories/. The cryptographic functions
   (argon2id kdf, AES-GCM seal/open, bip39 mnemonic/seed, HMAC-SHA512, ed25519, SHA3) are universally
   quantified; the only facts assumed about them are the functional laws written as premises. *)
From ZV Require Import Prelude PoWProofs Dec DecProofs Wallet WalletProofs.
Open Scope Z_scope.

(* Encrypt -> Write -> ReadKeyFile -> Decrypt with the same password: the file is read back unchanged
   (hex text of ciphertext, nonce and salt round-trips) and decrypts to exactly the key store it was made from *)
Theorem C19_roundtrip : forall kdf seal open mnemonic seed_of hmac512 ed_pub sha3,
  (forall k n ad m : bytes, open k n ad (seal k n ad m) = Some m) ->
  (forall k n ad m : bytes, Forall byte (seal k n ad m)) ->
  forall (pw salt nonce : bytes) (now : Z) (e : bytes) (ks : KeyStore),
  keystore_from_entropy mnemonic seed_of hmac512 ed_pub sha3 e = WOk ks ->
  Forall byte salt -> Forall byte nonce ->
  read_kf (write_kf (encrypt kdf seal pw salt nonce now ks)) = WOk (encrypt kdf seal pw salt nonce now ks) /\
  decrypt kdf open mnemonic seed_of hmac512 ed_pub sha3 pw (encrypt kdf seal pw salt nonce now ks) = WOk ks /\
  ks_entropy ks = e.
Proof. exact roundtrip. Qed.

(* every byte string of the file survives its text form *)
Theorem C19_hex_codec : forall b : bytes, Forall byte b -> hexutil_dec (hexutil_enc b) = Some b.
Proof. exact hexutil_roundtrip. Qed.

(* ReadKeyFile: any other version, cipher name or kdf name is refused *)
Theorem C19_checks : forall t : KeyFileText,
  (t_version t <> store_version -> forall k, read_kf t <> WOk k) /\
  (t_cipher_name t <> aes_mode -> forall k, read_kf t <> WOk k) /\
  (t_kdf t <> argon_name -> forall k, read_kf t <> WOk k).
Proof. exact read_refuses. Qed.

(* the provable part of "fails with any other password / after any corruption": a decryption succeeds only
   if the AEAD accepted (kdf(password, stored salt), stored nonce, "zenon", stored ciphertext); when the AEAD
   refuses, Decrypt returns ErrWrongPassword. That the AEAD refuses for other passwords / altered fields is a
   computational property of argon2id + AES-GCM (explored by the harness, not a theorem). *)
Theorem C19_decrypt_certifies_partial : forall kdf open mnemonic seed_of hmac512 ed_pub sha3 (pw : bytes) (k : KeyFile),
  (forall ks, decrypt kdf open mnemonic seed_of hmac512 ed_pub sha3 pw k = WOk ks ->
     exists e, open (kdf pw (kf_salt k)) (kf_nonce k) gcm_aad (kf_cipher k) = Some e /\
               keystore_from_entropy mnemonic seed_of hmac512 ed_pub sha3 e = WOk ks /\ ks_entropy ks = e) /\
  (open (kdf pw (kf_salt k)) (kf_nonce k) gcm_aad (kf_cipher k) = None ->
     decrypt kdf open mnemonic seed_of hmac512 ed_pub sha3 pw k = WErr EWrongPassword).
Proof.
  intros. split; [intros ks; apply decrypt_certifies | apply decrypt_refused].
Qed.

(* hardened paths only: a segment number n (a uint32) derives iff n < 2^31, with child number n + 2^31;
   DeriveWithIndex(i) succeeds iff i < 2^31 and otherwise ends in ErrNoPublicDerivation *)
Theorem C19_hardened_only : forall hmac512 ed_pub sha3 (seed : bytes) (i : Z), 0 <= i < two32 ->
  (hardened (child_index i) = true <-> i < first_hardened) /\
  (i < first_hardened -> child_index i = i + first_hardened) /\
  parse_path (format_path i) = Some [44; 73404; i] /\
  ((exists kp, derive_for_index hmac512 ed_pub sha3 seed i = WOk kp) <-> i < first_hardened) /\
  (first_hardened <= i -> derive_for_index hmac512 ed_pub sha3 seed i = WErr ENoPublicDerivation).
Proof.
  intros hmac512 ed_pub sha3 seed i Hi.
  destruct (child_index_spec i Hi) as [A B]. destruct (hardened_only (fun _ _ => []) (fun _ _ _ _ => []) (fun _ _ _ _ => None) (fun _ => None) (fun x => x)
              hmac512 ed_pub sha3 seed i Hi) as [C D].
  repeat split; auto; try apply A; try apply C. apply parse_format_path; exact Hi.
Qed.

(* for every path text: invalid by grammar / range, a non-hardened child, or derivable — decided by the text alone *)
Theorem C19_path_verdict : forall hmac512 ed_pub sha3 (path seed : bytes),
  match derive_class path with
  | DOk_ => exists kp, derive_for_path hmac512 ed_pub sha3 path seed = WOk kp
  | DInvalid => derive_for_path hmac512 ed_pub sha3 path seed = WErr EInvalidPath
  | DNoPublic => derive_for_path hmac512 ed_pub sha3 path seed = WErr ENoPublicDerivation
  end.
Proof. exact derive_class_sound. Qed.

(* mnemonic, seed and base address are functions of the entropy (and key pairs of seed and index) *)
Theorem C19_deterministic : forall mnemonic seed_of hmac512 ed_pub sha3 (e : bytes) (ks : KeyStore),
  keystore_from_entropy mnemonic seed_of hmac512 ed_pub sha3 e = WOk ks ->
  exists m kp, mnemonic e = Some m /\ derive_for_index hmac512 ed_pub sha3 (seed_of m) 0 = WOk kp /\
               ks = mkKS e (seed_of m) m (kp_addr kp).
Proof. exact keystore_is_function. Qed.

(* the address recorded in the key store and in the file is the index-0 address *)
Theorem C19_base_address_is_index0 : forall kdf seal mnemonic seed_of hmac512 ed_pub sha3
  (pw salt nonce : bytes) (now : Z) (e : bytes) (ks : KeyStore),
  keystore_from_entropy mnemonic seed_of hmac512 ed_pub sha3 e = WOk ks ->
  exists kp, derive_for_index hmac512 ed_pub sha3 (ks_seed ks) 0 = WOk kp /\ ks_base ks = kp_addr kp /\
             kf_base (encrypt kdf seal pw salt nonce now ks) = kp_addr kp.
Proof. exact base_address_is_index0. Qed.

(* a signature made with a derived key verifies under its public key, which maps to its (user) address *)
Theorem C19_sig_address_chain : forall (hmac512 : bytes -> bytes -> bytes) (ed_pub sha3 : bytes -> bytes)
  (sign : bytes -> bytes -> bytes) (verify : bytes -> bytes -> bytes -> bool),
  (forall sd m : bytes, verify (ed_pub sd) m (sign (sd ++ ed_pub sd) m) = true) ->
  forall (path seed : bytes) (kp : KeyPair),
  derive_for_path hmac512 ed_pub sha3 path seed = WOk kp ->
  kp_addr kp = pk_to_addr sha3 (kp_pub kp) /\ (exists t, kp_addr kp = 0 :: t) /\
  (forall m : bytes, verify (kp_pub kp) m (sign (kp_priv kp) m) = true).
Proof. exact sig_address_chain. Qed.

(* ---- non-vacuity: toy instances of the primitives satisfying the laws; a key store exists, round-trips *)
Definition toy_seal (k n ad m : bytes) : bytes := m.
Definition toy_open (k n ad c : bytes) : option bytes := Some c.
Definition toy_mnemonic (e : bytes) : option bytes := if Nat.eqb (length e) 16 then Some e else None.
Definition toy_hmac (k d : bytes) : bytes := repeat 1 64.
Definition toy_id (b : bytes) : bytes := b.
Example C19_keystore_example :
  exists ks, keystore_from_entropy toy_mnemonic toy_id toy_hmac toy_id toy_id (repeat 5 16) = WOk ks.
Proof. eexists. vm_compute. reflexivity. Qed.
Example C19_laws_example :
  (forall k n ad m : bytes, toy_open k n ad (toy_seal k n ad m) = Some m).
Proof. reflexivity. Qed.
Example C19_index_examples :
  derive_class (format_path 0) = DOk_ /\ derive_class (format_path 2147483647) = DOk_ /\
  derive_class (format_path 2147483648) = DNoPublic /\ derive_class [109; 47; 52; 52] = DInvalid.
Proof. vm_compute. auto. Qed.
