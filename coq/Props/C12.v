(* C12 — Plasma and proof-of-work: no block is accepted without paying its cost.
   Only statements; each is closed by a lemma proved in theories/. *)
From ZV Require Import Prelude PoW PoWProofs Plasma PlasmaProofs.
From ZV.gen Require Import Consts.
Open Scope Z_scope.

(* the byte-wise comparison of pow.go is the numeric comparison of little-endian uint64s *)
Theorem C12_greater_is_numeric : forall x y,
  length x = 8%nat -> length y = 8%nat -> Forall byte x -> Forall byte y ->
  greater x y = (le_value y <=? le_value x).
Proof. exact greater_is_numeric. Qed.

(* every difficulty a block can carry: honoured iff the digest is at or above 2^64 - floor(2^64/d) *)
Theorem C12_pow_threshold : forall d h8,
  1 <= d < two64 -> length h8 = 8%nat -> Forall byte h8 ->
  check d h8 = true <-> two64 - two64 / d <= le_value h8.
Proof. exact pow_threshold. Qed.

(* an accepted user block pays its base cost, stays under the cap, and its fused part fits into
   what the fused QSR provides after subtracting the plasma of the unconfirmed blocks *)
Theorem C12_plasma_sound : forall fa c u base f d pv total b nc,
  plasma_check fa c u base f d pv = POk total b nc ->
  0 <= c <= u -> 0 <= f < two64 -> 0 <= d < two64 ->
  (d <> 0 -> pv = true) /\
  b = base /\ base <= total <= MaxPlasmaForAccountBlock /\
  total = f + difficulty_to_plasma d /\
  (u - c) + f <= fused_to_plasma fa /\
  nc = u + f.
Proof. exact plasma_check_sound. Qed.

(* for every sequence of candidates between two momentums *)
Theorem C12_pool_accounting : forall fa c cs u u' acc,
  pool_run fa c u cs = (u', acc) ->
  0 <= c <= u -> u - c <= fused_to_plasma fa ->
  Forall (fun k => 0 <= c_f k < two64 /\ 0 <= c_d k < two64) cs ->
  u' = u + sum_f acc /\ u' - c <= fused_to_plasma fa /\ c <= u'.
Proof. exact pool_accounting. Qed.

(* the same sequence observed step by step (the chain plasma the harness reads from the real store after every
   candidate): an accepted candidate books exactly its fused plasma, a refused one nothing, and after EVERY step the
   plasma booked for the unconfirmed blocks is within what the fused QSR provides; the last value is pool_run's *)
Theorem C12_pool_trace_step : forall fa c u k r,
  0 <= c <= u -> 0 <= c_f k < two64 -> 0 <= c_d k < two64 ->
  exists code u1, pool_trace fa c u (k :: r) = (code, u1) :: pool_trace fa c u1 r /\
    ((code = 0 /\ u1 = u + c_f k /\ (u - c) + c_f k <= fused_to_plasma fa) \/ (code <> 0 /\ u1 = u)).
Proof. exact pool_trace_step. Qed.
Theorem C12_pool_trace_bounded : forall fa c cs u,
  0 <= c <= u -> u - c <= fused_to_plasma fa ->
  Forall (fun k => 0 <= c_f k < two64 /\ 0 <= c_d k < two64) cs ->
  Forall (fun p => c <= snd p /\ snd p - c <= fused_to_plasma fa) (pool_trace fa c u cs).
Proof. exact pool_trace_bounded. Qed.
Theorem C12_pool_trace_is_pool_run : forall fa c cs u,
  length (pool_trace fa c u cs) = length cs /\
  last (map snd (pool_trace fa c u cs)) u = fst (pool_run fa c u cs).
Proof. exact pool_trace_is_pool_run. Qed.

Theorem C12_pow_plasma_bounded_monotone : forall d1 d2, 0 <= d1 <= d2 -> d2 < two64 ->
  0 <= difficulty_to_plasma d1 <= difficulty_to_plasma d2 /\ difficulty_to_plasma d2 <= MaxPoWPlasmaForAccountBlock.
Proof. exact d2p_bounded_monotone. Qed.

Theorem C12_no_internal_error : forall fa c u base f d,
  0 <= c <= u -> u - c <= fused_to_plasma fa -> enough_plasma fa c u base f d <> PPanic.
Proof. exact enough_plasma_no_panic. Qed.

(* the base cost: a plain transfer pays 21000 + 68 per data byte (at most MaxDataLength bytes), every embedded
   method (table dumped from /repo on every run) costs between 2.5 transfers and the per-block cap *)
Theorem C12_base_cost_transfer : forall len b,
  0 <= len -> base_plasma false false false 0 len = BOk b ->
  len <= MaxDataLength /\ b = AccountBlockBasePlasma + ABByteDataPlasma * len.
Proof. exact base_plasma_transfer. Qed.
Theorem C12_base_cost_method : forall key len b,
  base_plasma false true true key len = BOk b -> EmbeddedSimplePlasma <= b <= MaxPlasmaForAccountBlock.
Proof. exact base_plasma_method. Qed.
(* "a contract call costs the plasma of its method ..., never less than the account-block base": for the price of every
   method of every method table (the key names the table), and for every user block that has a base cost *)
Theorem C12_contract_call_costs_at_least_the_base : forall key len b,
  base_plasma false true true key len = BOk b -> AccountBlockBasePlasma <= b.
Proof. exact base_plasma_method_at_least_base. Qed.
Theorem C12_every_base_cost_at_least_the_base : forall r c f key len b,
  0 <= len -> base_plasma r c f key len = BOk b -> AccountBlockBasePlasma <= b.
Proof. exact base_plasma_at_least_account_block_base. Qed.

(* record of finding F1 (fixed in /repo): the int64 cast broke the threshold from 2^63 on *)
Theorem C12_int64cast_refuted :
  exists d, 1 <= d < two64 /\ target_value_int64cast d <> two64 - two64 / d.
Proof. exact int64cast_refuted. Qed.

(* non-vacuity: a block paying with PoW + fused plasma is accepted by the model *)
Example C12_accept_example :
  plasma_check 1000000000000 100 21100 21000 20000 1500000 true = POk 21000 21000 41100.
Proof. vm_compute. reflexivity. Qed.

(* the PoW model the theorems above are about is the code: target and comparison equal pow.getTargetByDifficulty and
   pow.greaterDifficulty as translated from pow/pow.go by go2coq on every run (gen/Pure.v) *)
Theorem C12_target_is_the_source : forall d, ZV.gen.Pure.getTargetByDifficulty d = GoSem.Ok (target_value d).
Proof. exact target_value_is_source. Qed.
Theorem C12_comparison_is_the_source : forall x0 x1 x2 x3 x4 x5 x6 x7 tx y0 y1 y2 y3 y4 y5 y6 y7 ty,
  let x := [x0; x1; x2; x3; x4; x5; x6; x7] ++ tx in
  let y := [y0; y1; y2; y3; y4; y5; y6; y7] ++ ty in
  ZV.gen.Pure.greaterDifficulty (Z.of_nat (length x)) x7 (Z.of_nat (length y)) y7 x6 y6 x5 y5 x4 y4 x3 y3 x2 y2 x1 y1 x0 y0
  = GoSem.Ok (greater x y).
Proof. exact greater_is_source. Qed.

(* the plasma decision the theorems above are about is the code: vm.AvailablePlasma (vm/plasma.go) and vm.enoughPlasma
   (vm/vm.go) as translated by go2coq on every run; store reads, GetBasePlasmaForAccountBlock, IsEmbeddedAddress and the
   result of AddChainPlasma are inputs of the translations, the ARGUMENT of AddChainPlasma is an output. C12_source_accept_sound restates C12_plasma_sound directly
   about the translated source: nil returned for a user block only if the three conditions of the property hold. *)
Theorem C12_available_is_the_source : forall fa c u,
  ZV.gen.PurePlasma.AvailablePlasma c 0 fa 0 u 0 =
  match available fa c u with
  | None => (0, ZV.gen.Pure.Err_new_got_negative_available_plasma)
  | Some v => (v, 0)
  end.
Proof. exact available_is_source. Qed.
Theorem C12_available_errors_propagate : forall c e1 fa e2 u e3,
  e1 <> 0 \/ e2 <> 0 \/ e3 <> 0 -> exists e, e <> 0 /\ ZV.gen.PurePlasma.AvailablePlasma c e1 fa e2 u e3 = (0, e).
Proof. exact available_errors_propagate. Qed.
Theorem C12_enough_plasma_is_the_source : forall fa c u base f d tp bp addres,
  let av := ZV.gen.PurePlasma.AvailablePlasma c 0 fa 0 u 0 in
  let total := u64 (difficulty_to_plasma d + f) in
  ZV.gen.PurePlasma.enoughPlasma tp bp false (fst av) (snd av) f d base 0 addres =
  match enough_plasma fa c u base f d with
  | PPanic => GoSem.Panic
  | PErr 1 => GoSem.Ok (ZV.gen.Pure.Err_constants_ErrNotEnoughPlasma, tp, bp, None)
  | PErr 2 => GoSem.Ok (ZV.gen.Pure.Err_constants_ErrBlockPlasmaLimitReached, total, bp, None)
  | PErr _ => GoSem.Ok (ZV.gen.Pure.Err_constants_ErrNotEnoughTotalPlasma, total, base, None)
  | POk t b _ => GoSem.Ok (addres, t, b, Some f)
  end.
Proof. exact enough_plasma_is_source. Qed.
(* the amount booked into the account's chain-plasma counter. The last component of the translated enoughPlasma is the
   ARGUMENT it hands to context.AddChainPlasma (None on the paths that do not reach the call); AddChainPlasma_sum is the
   statement of accountStore.AddChainPlasma (chain/account/plasma.go) that adds it to the stored counter, translated
   from source as well. The model's new counter is exactly that sum of the block's FusedPlasma. *)
Theorem C12_booked_amount_is_the_source : forall fa c u base f d t b nc,
  enough_plasma fa c u base f d = POk t b nc -> nc = ZV.gen.PurePlasma.AddChainPlasma_sum f u.
Proof. exact enough_plasma_books_source. Qed.
Theorem C12_source_accept_sound : forall fa c u base f d tp bp total b booked,
  0 <= c <= u -> 0 <= f < two64 -> 0 <= d < two64 ->
  let av := ZV.gen.PurePlasma.AvailablePlasma c 0 fa 0 u 0 in
  ZV.gen.PurePlasma.enoughPlasma tp bp false (fst av) (snd av) f d base 0 0 = GoSem.Ok (0, total, b, booked) ->
  b = base /\ base <= total <= MaxPlasmaForAccountBlock /\ total = f + difficulty_to_plasma d /\
  (u - c) + f <= fused_to_plasma fa /\
  booked = Some f /\ ZV.gen.PurePlasma.AddChainPlasma_sum f u = u + f.
Proof. exact source_accept_sound. Qed.
Theorem C12_source_refusal_books_nothing : forall fa c u base f d tp bp e total b booked,
  let av := ZV.gen.PurePlasma.AvailablePlasma c 0 fa 0 u 0 in
  ZV.gen.PurePlasma.enoughPlasma tp bp false (fst av) (snd av) f d base 0 0 = GoSem.Ok (e, total, b, booked) ->
  e <> 0 -> booked = None.
Proof. exact source_refusal_books_nothing. Qed.

(* the base cost of a block IS the code: vm.GetBasePlasmaForAccountBlock translated whole by go2coq on every run. Inputs:
   IsEmbeddedAddress(block.Address), block.BlockType, the error of embedded.GetEmbeddedMethod, len(block.Data), the
   results of method.GetPlasma; [key] / [p] the method and its cost in the method tables dumped from the real node. *)
Theorem C12_base_plasma_is_the_source : forall bt gm dl key p,
  0 <= dl -> (gm = 0 -> method_plasma key = Some p) ->
  match base_plasma (ZV.gen.PureVerifCommon.ab_IsReceiveBlock bt) (negb (gm =? ZV.gen.Pure.Err_constants_ErrNotContractAddress)) (gm =? 0) key dl with
  | BOk b => ZV.gen.PurePlasma.GetBasePlasmaForAccountBlock false bt gm dl p 0 = (b, 0)
  | BErr => snd (ZV.gen.PurePlasma.GetBasePlasmaForAccountBlock false bt gm dl p 0) <> 0
  end.
Proof. exact base_plasma_is_source. Qed.
Theorem C12_source_base_plasma_embedded_is_free : forall bt gm dl p e,
  ZV.gen.PurePlasma.GetBasePlasmaForAccountBlock true bt gm dl p e = (0, 0).
Proof. exact base_plasma_embedded_is_free. Qed.
Theorem C12_source_base_plasma_at_least_base : forall bt dl p e b,
  0 <= dl ->
  ZV.gen.PurePlasma.GetBasePlasmaForAccountBlock false bt ZV.gen.Pure.Err_constants_ErrNotContractAddress dl p e = (b, 0) ->
  AccountBlockBasePlasma <= b /\
  (ZV.gen.PureVerifCommon.ab_IsReceiveBlock bt = false -> b = AccountBlockBasePlasma + ABByteDataPlasma * dl /\ dl <= MaxDataLength).
Proof. exact base_plasma_at_least_base. Qed.
