(* C18 — RPC answers match the ledger and are bounded (paging / range arithmetic part; the JSON-RPC server's
   robustness is runtime behaviour and is explored by the harness, not proved).
   Only statements; each is closed by a lemma proved in theories/PagingProofs.v.
   GetRange is Pure.GetRange, regenerated from rpc/api/utils.go on every run. *)
From ZV Require Import Prelude GoSem Paging PagingProofs RpcMsg RpcMsgProofs PoWProofs Dec DecProofs JsonText JsonTextProofs.
From ZV.gen Require Import Consts Pure.
Open Scope Z_scope.

(* the translated GetRange computes the mathematically intended bounds for EVERY uint32 input *)
Theorem C18_getrange_exact : forall index count n,
  in_u32 index -> in_u32 count -> in_u32 n ->
  GetRange index count n = (Z.min (index * count) n, Z.min (index * count + count) n).
Proof. exact getrange_exact. Qed.

(* paging through any list: the first k pages concatenate to the list (each element once, in order)
   as soon as k*size covers it ... *)
Theorem C18_pages_partition : forall (A : Type) (l : list A) size k,
  0 < size -> in_u32 size -> in_u32 (Z.of_nat (length l)) -> in_u32 (Z.of_nat k) ->
  Z.of_nat (length l) <= Z.of_nat k * size ->
  concat (map (fun i => page l (Z.of_nat i) size) (seq 0 k)) = l.
Proof. exact @pages_partition. Qed.

(* ... and every page beyond the end is empty, for every index in uint32 *)
Theorem C18_page_beyond_end_empty : forall (A : Type) (l : list A) index size,
  in_u32 index -> in_u32 size -> in_u32 (Z.of_nat (length l)) ->
  Z.of_nat (length l) <= index * size -> page l index size = [].
Proof. exact @page_beyond_end_empty. Qed.

(* list[start:end] never panics and a page is never longer than the requested size *)
Theorem C18_page_bounded : forall (A : Type) (l : list A) index size,
  in_u32 index -> in_u32 size -> in_u32 (Z.of_nat (length l)) ->
  page_res l index size <> Panic /\ Z.of_nat (length (page l index size)) <= size.
Proof. exact @page_bounded. Qed.

(* with the API's `pageSize > limit` guard: a reply has at most `size <= limit` elements *)
Theorem C18_paged_api_bounded : forall limit n index size p,
  0 <= limit -> in_u32 index -> in_u32 size -> in_u32 n ->
  paged_api limit n index size = AList p ->
  Z.of_nat (length p) <= size /\ (0 < limit -> size <= limit) /\ paged_api limit n index size <> APanic.
Proof. exact paged_api_bounded. Qed.

(* GetAccountBlocksByHeight: exactly the existing heights of [height, height+count), ascending, Count = frontier height *)
Theorem C18_acc_by_height_exact : forall h height count e l c,
  0 <= h < two63 -> in_u64 height -> in_u64 count ->
  acc_by_height h height count = (e, l, c) ->
  (e = ErrHeightZero /\ height = 0) \/ (e = ErrCountTooBig /\ RpcMaxCountSize < count) \/
  (e = 0 /\ 0 < height /\ count <= RpcMaxCountSize /\ c = h /\ l = window h height (Z.to_nat count)).
Proof. exact acc_by_height_spec. Qed.

Theorem C18_window_members : forall h lo n x,
  In x (window h lo n) <-> (lo <= x < lo + Z.of_nat n /\ 1 <= x <= h).
Proof. exact In_window. Qed.

Theorem C18_by_height_bounded : forall h lo n, (length (window h lo n) <= n)%nat.
Proof. exact window_length_le. Qed.

(* GetMomentumsByHeight (momentumStore range + nil filtering) *)
Theorem C18_mom_by_height_exact : forall H height count e l c,
  0 <= H < two63 -> in_u64 height -> in_u64 count ->
  mom_by_height H height count = (e, l, c) ->
  (e = ErrHeightZero /\ height = 0) \/ (e = ErrCountTooBig /\ RpcMaxCountSize < count) \/
  (e = 0 /\ 0 < height /\ count <= RpcMaxCountSize /\ c = H /\
   l = window H height (Z.to_nat (u64 (height + count) - height))).
Proof. exact mom_by_height_spec. Qed.

(* the capacity allocated by getMomentumsByRange is bounded by the request for every caller that passes
   higher=true (RPC) or the height of an existing momentum (protocol handler) *)
Theorem C18_store_range_alloc_bounded : forall height higher count,
  in_u64 height -> 0 <= count <= RpcMaxCountSize -> (higher = false -> height < two64 - 1) ->
  let '(from, to) := mom_range height higher count in u64 (to - from) <= count.
Proof. exact mom_range_alloc_bounded. Qed.

(* Get{AccountBlocks,Momentums}ByPage: descending pages of h..1; together they give every height exactly once *)
Theorem C18_by_page_matches_by_height : forall h size k,
  0 < h < two63 - 1 -> 0 < size <= RpcMaxPageSize -> Z.of_nat k < two32 -> h <= Z.of_nat k * size ->
  concat (map (fun i => heights_of (acc_by_page h (Z.of_nat i) size)) (seq 0 k)) = rev (zseq 1 (Z.to_nat h)) /\
  concat (map (fun i => heights_of (mom_by_page h (Z.of_nat i) size)) (seq 0 k)) = rev (zseq 1 (Z.to_nat h)).
Proof. intros. split; [apply acc_pages_partition | apply mom_pages_partition]; assumption. Qed.

Theorem C18_by_page_beyond_end_empty : forall h index size,
  0 < h < two63 - 1 -> 0 <= index < two32 -> 0 < size <= RpcMaxPageSize -> h <= index * size ->
  acc_by_page h index size = (0, [], h) /\ mom_by_page h index size = (0, [], h).
Proof. exact by_page_beyond_end. Qed.

(* for EVERY uint32 page index (the wrapping last one included) and every chain height: no error, Count = frontier height,
   at most `size` entries, each an existing height of that page's interval (h-(index+1)*size, h-index*size] *)
Theorem C18_by_page_bounded : forall h index size r,
  0 < h < two63 - 1 -> 0 <= index < two32 -> 0 < size <= RpcMaxPageSize ->
  r = acc_by_page h index size \/ r = mom_by_page h index size ->
  exists l, r = (0, l, h) /\ Z.of_nat (length l) <= size /\
            (forall x, In x l -> 1 <= x <= h /\ h - (index + 1) * size < x <= h - index * size).
Proof. exact by_page_bounded. Qed.

(* the wrapping top index answers empty although its interval holds heights once the chain exceeds (2^32-1)*size momentums
   (not reachable: > 2^32 momentums); the completeness theorem above is therefore stated for k < 2^32 pages *)
Theorem C18_by_page_top_index_incomplete_refuted :
  exists h size, 0 < h < two63 - 1 /\ 0 < size <= RpcMaxPageSize /\ 0 < h - (two32 - 1) * size /\
    acc_by_page h (two32 - 1) size = (0, [], h) /\ mom_by_page h (two32 - 1) size = (0, [], h).
Proof. exact by_page_top_index_incomplete_refuted. Qed.

(* reward / pillar-history pagers: page `index` is the epochs (last-(index+1)*size, last-index*size] clipped at 0, descending *)
Theorem C18_epoch_page_exact : forall last index size,
  -1 <= last < two63 / 2 -> in_u32 index -> 0 <= size <= RpcMaxPageSize ->
  epoch_page last index size =
    if last <? index * size then []
    else rev (zseq (Z.max 0 (last - index * size - size + 1)) (Z.to_nat (last - index * size - Z.max 0 (last - index * size - size + 1) + 1))).
Proof. exact epoch_page_exact. Qed.

(* ... and the first k pages hold every epoch last..0 exactly once, newest first, as soon as k*size covers them *)
Theorem C18_epoch_pages_partition : forall last size k,
  0 <= last < two63 / 2 -> 0 < size <= RpcMaxPageSize -> Z.of_nat k < two32 -> last + 1 <= Z.of_nat k * size ->
  concat (map (fun i => epoch_page last (Z.of_nat i) size) (seq 0 k)) = rev (zseq 0 (Z.to_nat (last + 1))).
Proof. exact epoch_pages_partition. Qed.

(* record of finding F13 (fixed in /repo): the 32-bit product index*count selected page 0 again ... *)
Theorem C18_getrange_wrap_refuted :
  exists index size n, in_u32 index /\ in_u32 size /\ in_u32 n /\ 0 < size <= RpcMaxPageSize /\
    n <= index * size /\ GetRange_u32 index size n = (0, n) /\ 0 < n.
Proof. exact getrange_u32_wrap_refuted. Qed.
(* ... and where the page size is unbounded (accelerator.GetAll) even produced start > end, i.e. a slice panic *)
Theorem C18_getrange_u32_slice_panic_refuted :
  exists index size n, in_u32 index /\ in_u32 size /\ in_u32 n /\
    let '(s, e) := GetRange_u32 index size n in e < s.
Proof. exact getrange_u32_slice_panic_refuted. Qed.
Theorem C18_epoch_page_wrap_refuted :
  exists last index size, 0 <= last /\ in_u32 index /\ 0 < size <= RpcMaxPageSize /\ last < index * size /\
    epoch_page_u32 last index size <> [].
Proof. exact epoch_page_u32_wrap_refuted. Qed.
(* record of the MoreByHeight wrap (fixed in /repo): heights above the frontier wrapped to the start of the chain *)
Theorem C18_more_by_height_wrap_refuted :
  exists h height n, 0 < h /\ in_u64 height /\ h < height /\ more_loop_wrap h height 0 n <> [].
Proof. exact more_loop_wrap_refuted. Qed.

(* ---- "malformed, oversized or hostile JSON-RPC requests produce error responses and never terminate the server":
   the decision of rpc/server (json.go parseMessage / readBatch, handler.go handleBatch / handleMsg / handleImmediate /
   handleCallMsg / handleCall, the read loops of http and of the stream transports) modelled in RpcMsg.v and compared with
   the real server over http, websocket and ipc on every run. *)
(* no document of any class, alone or in a sequence on one connection, reaches the nil dereference *)
Theorem C18_rpc_never_panics : forall t ds, handle_session t ds <> RpcPanic.
Proof. exact handle_session_no_panic. Qed.

(* a single message / a batch is answered with exactly one reply per element that JSON-RPC wants answered (not a
   notification, not a response), in order, echoing the element's id (null when there is none to echo), never with a
   parse error; an empty batch with one "invalid request" object; nothing at all only when nothing has to be answered *)
Theorem C18_rpc_value_answered : forall t batch es,
  exists l, handle_value true t batch es = Replies l /\
  ((batch = true /\ es = [] /\ l = [(false, [(0, code_invalid_request)])]) \/
   ((batch = false \/ es <> []) /\
    ((filter needs_reply es = [] /\ l = []) \/
     (filter needs_reply es <> [] /\
      exists rs, l = [(batch, rs)] /\ length rs = length (filter needs_reply es) /\
                 map fst rs = map reply_id (filter needs_reply es) /\
                 Forall (fun r => snd r <> code_parse) rs)))).
Proof. exact value_answered. Qed.

(* what an element is answered with: a call with the outcome of dispatch, anything else with "invalid request" *)
Theorem C18_rpc_answer_kind : forall t e,
  snd (answer t e) = (if is_call (msg_of e) then call_kind t (msg_of e) else code_invalid_request) /\
  (is_call (msg_of e) = true ->
   call_kind t (msg_of e) = code_default \/ call_kind t (msg_of e) = code_method_not_found \/
   call_kind t (msg_of e) = code_invalid_params \/ call_kind t (msg_of e) = kind_ran \/ call_kind t (msg_of e) = kind_any).
Proof. intros t e. split; [apply answer_kind | apply call_kind_cases]. Qed.

(* at most one reply document per document; a connection never carries more reply documents than documents *)
Theorem C18_rpc_reply_documents_bounded : forall t ds,
  handle_session t ds = Replies (session_replies t ds) /\
  (length (session_replies t ds) <= length ds)%nat /\ (forall d, (length (doc_replies t d) <= 1)%nat).
Proof. intros t ds. split; [apply handle_session_spec|]. split; [apply session_replies_bounded|]. intros d. apply doc_replies_at_most_one. Qed.

(* over http a request is left without a body only when it is empty or consists of notifications / responses *)
Theorem C18_rpc_http_silent_only_without_requests : forall d,
  doc_replies THttp d = [] ->
  d = DocEmpty \/ (exists e, d = DocSingle e /\ needs_reply e = false) \/
  (exists es, d = DocBatch es /\ es <> [] /\ forall e, In e es -> needs_reply e = false).
Proof. exact http_silent_only_without_requests. Qed.

(* what readBatch's replacement of nil messages is for: without it a JSON null in message position, alone or anywhere
   in a batch, is dereferenced by handleImmediate (on the dispatch goroutine of a stream transport: process exit) *)
Theorem C18_rpc_null_without_replacement_refuted :
  (forall t pre post, handle_session_nofix t [DocBatch (pre ++ ENull :: post)] = RpcPanic) /\
  (forall t, handle_session_nofix t [DocSingle ENull] = RpcPanic).
Proof. split; [exact nofix_null_panics | exact nofix_single_null_panics]. Qed.

(* ---- "oversized requests produce error responses (and the request size is bounded)": the size gate in front of the
   decoder (RpcMsg.v: http.go validateRequest + the LimitReader of newHTTPServerConn, websocket.go SetReadLimit), for every
   length of the document (need = bytes up to the end of its first JSON value), every number of bytes sent, every declared
   length and every cutting into frames; compared with the real server on every run (TieC18.size_gate) on requests of
   limit-1 .. 2 x limit bytes in every framing, where "decoded" is observed on the side effect of the called method. *)
(* a document is decoded (and so can run) only if it ends within the bound AND within what is sent AND within what is
   declared; a declared length above the bound is refused whatever is sent; over websocket whatever the frames are *)
Theorem C18_size_gate_bounds_what_is_decoded :
  (forall need n f, http_gate http_body_limit need n f = GDecoded ->
     need <= http_body_limit /\ need <= n /\ (forall d, f = FDeclared d -> d <= http_body_limit /\ need <= d)) /\
  (forall need n d, http_body_limit < d -> http_gate http_body_limit need n (FDeclared d) = GRefused) /\
  (forall need frames, ws_gate ws_message_limit need frames = GDecoded -> need <= ws_message_limit).
Proof.
  split; [intros need n f; apply http_gate_decoded_bounded|].
  split; [intros need n d; apply http_gate_declared_too_large_refused | intros need frames; apply ws_gate_decoded_bounded].
Qed.
(* the clause: an oversized document is never decoded, in no framing *)
Theorem C18_size_gate_oversized_never_decoded :
  (forall need n f, http_body_limit < need -> http_gate http_body_limit need n f <> GDecoded) /\
  (forall need frames, ws_message_limit < need -> ws_gate ws_message_limit need frames <> GDecoded).
Proof.
  split; [intros need n f; apply http_gate_oversized_never_decoded|].
  intros need frames Hl H. apply ws_gate_decoded_bounded in H. lia.
Qed.
(* requests within the bound get the same decision in every honest framing: with or without a declared length, and
   however a websocket message is cut into frames; a complete document is decoded *)
Theorem C18_size_gate_within_limit_framing_independent :
  (forall need n, n <= http_body_limit ->
     http_gate http_body_limit need n (FDeclared n) = http_gate http_body_limit need n FUndeclared /\
     (need <= n -> http_gate http_body_limit need n FUndeclared = GDecoded)) /\
  (forall need frames, (forall f, In f frames -> 0 <= f) -> 0 < need <= zsum frames -> zsum frames <= ws_message_limit ->
     ws_gate ws_message_limit need frames = GDecoded).
Proof. split; [intros need n; apply http_gate_framing_independent | intros need frames; apply ws_gate_within_limit]. Qed.
(* what the reader in front of the decoder is for: the check of the declared length alone lets a document of any length
   through when no length is declared (chunked transfer encoding) *)
Theorem C18_size_gate_without_body_reader_refuted :
  exists need n, http_body_limit < need /\ http_gate_unlimited_body http_body_limit need n FUndeclared = GDecoded.
Proof. exact http_gate_unlimited_body_refuted. Qed.

(* ---- "A block returned as JSON and fed back parses to the same block with the same hash": the text form of every
   scalar field (JsonText.v: what MarshalJSON prints, what UnmarshalJSON of nom.AccountBlock / api.AccountBlock takes),
   compared with the real marshaller / unmarshaller field by field on every run. For every field: print then parse is the
   identity on the field's whole range; then what else the parser takes (second text forms) and what it refuses. *)
(* amounts ("amount": "<decimal>", every integer, also negative) *)
Theorem C18_json_amount_roundtrip : forall z, parse_amount (print_amount z) = z.
Proof. exact amount_roundtrip. Qed.
(* ... second text forms: a plus sign, leading zeros (also behind a minus sign: "-0" is 0); everything that is not a
   number (empty, a lone sign, any other character anywhere) is silently read as 0 *)
Theorem C18_json_amount_second_text_forms :
  (forall z, 0 <= z -> parse_amount (43 :: print_amount z) = z) /\
  (forall k z, 0 <= z -> parse_amount (repeat 48 (S k) ++ print_amount z) = z) /\
  (forall k z, 0 <= z -> parse_amount (45 :: repeat 48 k ++ print_amount z) = - z) /\
  (forall s, s = [] \/ s = [45] \/ s = [43] \/ (exists c, In c (tl s) /\ is_digit c = false) \/
             (exists c r, s = c :: r /\ is_digit c = false /\ c <> 45 /\ c <> 43) -> parse_amount s = 0).
Proof.
  split; [exact amount_plus|]. split; [exact amount_leading_zeros|]. split; [exact amount_negative_leading_zeros|].
  intros s H. apply amount_garbage_is_zero. apply amount_not_a_number. exact H.
Qed.

(* uint64 fields (version, chainIdentifier, blockType, height, fusedPlasma, difficulty, basePlasma, usedPlasma) *)
Theorem C18_json_u64_roundtrip : forall z, 0 <= z < two64 -> parse_u64_field (print_u64 z) = Some z.
Proof. exact u64_roundtrip. Qed.
(* ... the printed literal is the only number literal of a value; the one second text form is null (for 0) *)
Theorem C18_json_u64_text_unique : forall s z, parse_u64_field s = Some z -> s = print_u64 z \/ (s = json_null /\ z = 0).
Proof. exact u64_text_unique. Qed.
Theorem C18_json_u64_refused :
  (forall c r, parse_u64_field (48 :: c :: r) = None) /\
  (forall s c, In c s -> is_digit c = false -> s <> json_null -> parse_u64_field s = None) /\
  (forall z, two64 <= z -> parse_u64_field (print_u64 z) = None).
Proof. split; [exact u64_leading_zero|]. split; [exact u64_nondigit | exact u64_out_of_range]. Qed.

(* nonce (8 bytes) and hashes (32 bytes) as lower-case hex *)
Theorem C18_json_hex_roundtrip :
  (forall n, Forall byte n -> length n = 8%nat -> parse_nonce_nom (print_nonce n) = Some n /\ parse_nonce_api (print_nonce n) = n) /\
  (forall h, Forall byte h -> length h = 32%nat -> parse_hash (print_hash h) = Some h).
Proof. split; [exact nonce_roundtrip | exact hash_roundtrip]. Qed.
(* ... second text forms: upper-case a..f, and nothing else (an accepted text is the printed one up to letter case);
   api.AccountBlock reads every nonce text that nom.AccountBlock refuses as the zero nonce *)
Theorem C18_json_hex_second_text_forms :
  (forall b, Forall byte b -> hex_dec (map hex_upper (hex_enc b)) = Some b) /\
  (forall s b, hex_dec s = Some b -> map hex_lower s = hex_enc b /\ Forall byte b) /\
  (forall s, parse_nonce_nom s = None -> parse_nonce_api s = zero_nonce) /\
  (forall s b, parse_nonce_nom s = Some b -> parse_nonce_api s = b).
Proof.
  split; [exact hex_upper_accepted|]. split; [exact hex_accepted_is_canonical_up_to_case|].
  split; [exact nonce_api_garbage_is_zero | exact nonce_api_agrees].
Qed.

(* addresses (20 bytes, "z1...") and token standards (10 bytes, "zts1...") as bech32 *)
Theorem C18_json_bech32_roundtrip :
  (forall a, Forall byte a -> length a = 20%nat -> parse_address (print_address a) = Some a) /\
  (forall a, Forall byte a -> length a = 10%nat -> parse_zts (print_zts a) = Some a).
Proof. split; [exact address_roundtrip | exact zts_roundtrip]. Qed.
(* ... second text forms (witness: the zero address): all upper case, the bech32m checksum, a payload one group shorter
   when the last five bits are zero; mixed case is refused *)
Theorem C18_json_address_second_text_forms :
  let canon := print_address zero_address in
  let upper := map upper_case canon in
  let m := addr_prefix ++ [49] ++ map enc5 (to5 zero_address) ++ map enc5 (checksum bech32m_const addr_prefix (to5 zero_address)) in
  let g31 := firstn 31 (to5 zero_address) in
  let short := addr_prefix ++ [49] ++ map enc5 g31 ++ map enc5 (checksum bech32_const addr_prefix g31) in
  upper <> canon /\ parse_address upper = Some zero_address /\
  m <> canon /\ parse_address m = Some zero_address /\
  short <> canon /\ parse_address short = Some zero_address.
Proof. exact address_second_text_forms. Qed.

(* byte strings (data, publicKey, signature) as base64 in a JSON string *)
Theorem C18_json_data_roundtrip : forall b, Forall byte b -> parse_data (BJStr (print_data b)) = Some b.
Proof. exact data_roundtrip. Qed.
(* ... second text forms: line breaks anywhere, the unused low bits of the last character, a JSON array of numbers,
   null / [] for the empty string *)
Theorem C18_json_data_second_text_forms :
  (forall s1 s2, b64_dec (s1 ++ 10 :: s2) = b64_dec (s1 ++ s2) /\ b64_dec (s1 ++ 13 :: s2) = b64_dec (s1 ++ s2)) /\
  (b64_dec [81; 81; 61; 61] = Some [65] /\ b64_dec [81; 82; 61; 61] = Some [65] /\
   b64_dec [81; 85; 73; 61] = Some [65; 66] /\ b64_dec [81; 85; 74; 61] = Some [65; 66]) /\
  (forall b, Forall byte b -> parse_data (BJArr (map print_dec b)) = Some b) /\
  (parse_data BJNull = Some [] /\ parse_data (BJStr []) = Some [] /\ parse_data (BJArr []) = Some []).
Proof.
  split; [exact data_line_breaks_ignored|]. split; [exact data_unused_bits_ignored|].
  split; [exact data_as_array | exact data_null_and_empty].
Qed.

(* non-vacuity *)
Example C18_json_text_example :
  print_amount (-1200) = [45; 49; 50; 48; 48] /\ parse_amount [43; 48; 48; 55] = 7 /\ parse_amount [49; 101; 51] = 0 /\
  parse_u64_field [49; 46; 48] = None /\ print_data [65; 66] = [81; 85; 73; 61] /\
  print_address zero_address = [122; 49; 113; 113; 113; 113; 113; 113; 113; 113; 113; 113; 113; 113; 113; 113; 113; 113; 113; 113; 113;
                                113; 113; 113; 113; 113; 113; 113; 113; 113; 113; 113; 113; 113; 115; 103; 103; 118; 50; 102].
Proof. vm_compute. repeat split; reflexivity. Qed.
Example C18_rpc_example :
  handle_session TStream [DocBatch [EObj (mkMsg (IdVal 1) (MName SfxNone DRun) true false false); ENull;
                                    EObj (mkMsg IdAbsent (MName SfxNone DRun) false false false);
                                    EObj (mkMsg (IdVal 2) MEmpty false true false); ENonObj;
                                    EObj (mkMsg IdBad (MName SfxSubscribe DNotFound) true false false)];
                          DocSyntax; DocSingle ENull]
  = Replies [(true, [(1, kind_ran); (0, code_invalid_request); (0, code_invalid_request); (0, code_invalid_request)]);
             (false, [(0, code_parse)])].
Proof. vm_compute. reflexivity. Qed.
Example C18_size_gate_example :
  map size_gate [GHttp 5242880 5242880 (FDeclared 5242880); GHttp 5242881 5242881 (FDeclared 5242881); GHttp 5242881 5242881 FUndeclared;
                 GHttp 90 5242881 FUndeclared; GHttp 90 90 (FDeclared 50); GHttp 90 90 (FDeclared 0); GHttp 90 90 (FDeclared 6000000);
                 GWs 15728640 [15728640]; GWs 15728641 [15728641]; GWs 15728641 [7; 15728000; 634]; GWs 90 [100; 15728640]]
  = [GDecoded; GRefused; GNoDocument; GDecoded; GNoDocument; GNoDocument; GRefused; GDecoded; GRefused; GRefused; GDecoded].
Proof. vm_compute. reflexivity. Qed.
Example C18_pages_example : map (fun i => page [10;11;12;13;14;15;16] i 3) [0;1;2;3;4294967295] = [[10;11;12];[13;14;15];[16];[];[]].
Proof. vm_compute. reflexivity. Qed.
Example C18_by_page_example : map (fun i => heights_of (acc_by_page 7 i 3)) [0;1;2;3;4194304;4294967295] = [[7;6;5];[4;3;2];[1];[];[];[]].
Proof. vm_compute. reflexivity. Qed.
