(* C04 — Each send is received at most once, only by its addressee; contract inboxes are strict FIFO.
   Only statements; each is closed by a lemma proved in theories/MailboxProofs.v.
   The model (theories/Mailbox.v) keeps the chain WITH its structure: confirmed momentums, the unconfirmed pool,
   verification of a candidate on top of any unconfirmed position of its account (replacement of unconfirmed blocks),
   momentums confirming per-account prefixes of the pool in any content order, rollback of the frontier momentum
   (reorganisation), restart.  It mirrors verifier fromHash()/sequencer(), chain/account/{received,sequencer}.go,
   the mailbox push on confirmation (chain/momentum/ledger_store.go) and chain/account_pool.go. *)
From ZV Require Import Prelude Ledger LedgerProofs Mailbox MailboxProofs MailboxSource.
Open Scope Z_scope.

(* The receiver rule has two regimes (verifier.ReceiverMismatchEnforcementHeight = E, compared by fromHash() with the height
   of the node's frontier momentum; model: [enforced E n]).  E is a parameter of every statement.  E <= 1 is a chain that
   enforces the rule from its genesis momentum on (what the statement of C04 describes: "only by the account it was
   addressed to").  For E above that, the code keeps, and the theorems state, what remains true in BOTH regimes:
   the received marker is the receiving account's own, so one account never receives a send twice; a receiving block of
   a non-addressee is a user block that acknowledges a momentum below E; among blocks acknowledging E or later a send is
   received at most once, by its addressee; contract inboxes are strict FIFO. *)

(* every event keeps the invariant: candidate blocks (accepted or not, inserted or not, on top of the pool or replacing
   unconfirmed blocks), momentums, rollbacks (also back below the enforcement height), restarts *)
Theorem C04_event_preserves : forall E n e n' c,
  WFN E n -> step_node E n e = (n', c) -> WFN E n'.
Proof. exact step_node_wf. Qed.

(* over the whole life of a chain that enforces the receiver from genesis on, for every event sequence: a send has at
   most one receiving block on chain + pool *)
Theorem C04_at_most_once : forall E es h, E <= 1 ->
  (length (receivers h (blocks_of (run_node E genesis_node es))) <= 1)%nat.
Proof. intros E es h LE. apply (at_most_once E); [exact LE|]. apply run_node_wf. apply WFN_genesis. Qed.

(* ... and that block belongs to the account the send is addressed to; the send is a confirmed block *)
Theorem C04_only_addressee : forall E es b h, E <= 1 ->
  let n := run_node E genesis_node es in
  In b (blocks_of n) -> b_kind b = BRecv h ->
  exists from, find_csend h (conf_sends (chain n)) = Some (from, b_addr b).
Proof. intros E es b h LE n. apply (only_addressee E); [exact LE|]. apply run_node_wf. apply WFN_genesis. Qed.

(* ANY enforcement height (legacy regime, switch-over in the middle of the history, rollbacks across it):
   one account never has two blocks receiving the same send *)
Theorem C04_once_per_account : forall E es a h,
  (length (receivers_by a h (blocks_of (run_node E genesis_node es))) <= 1)%nat.
Proof. intros E es a h. apply (once_per_account E). apply run_node_wf. apply WFN_genesis. Qed.

(* ... every receiving block refers to a confirmed send and belongs to its addressee, or is a user block acknowledging a
   momentum below the enforcement height *)
Theorem C04_receiver_rule : forall E es b h,
  let n := run_node E genesis_node es in
  In b (blocks_of n) -> b_kind b = BRecv h ->
  exists from to, find_csend h (conf_sends (chain n)) = Some (from, to) /\
                  (to = b_addr b \/ (is_emb (b_addr b) = false /\ 1 <= b_ma b < E)).
Proof. intros E es b h n. apply (receiver_rule E). apply run_node_wf. apply WFN_genesis. Qed.

(* ... and among the blocks that acknowledge the enforcement height or a later momentum a send is received at most once *)
Theorem C04_at_most_once_from_enforcement : forall E es h,
  (length (receivers_from E h (blocks_of (run_node E genesis_node es))) <= 1)%nat.
Proof. intros E es h. apply at_most_once_from_enforcement. apply run_node_wf. apply WFN_genesis. Qed.

(* every contract receives exactly a prefix of the sends addressed to it, in confirmation order: nothing skipped,
   nothing repeated — also after replacement, reorganisation and restart, in both regimes *)
Theorem C04_fifo : forall E es c,
  let n := run_node E genesis_node es in
  is_emb c = true ->
  prefix (recvs_of c (blocks_of n)) (inbox_at c (chain n)) /\ NoDup (recvs_of c (blocks_of n)).
Proof. intros E es c n. apply (fifo E). apply run_node_wf. apply WFN_genesis. Qed.

(* a contract receive for send h - verified on a node reached by ANY events, on top of ANY kept prefix of the contract's
   unconfirmed blocks, acknowledging any momentum of the chain - is accepted EXACTLY when h is the entry of the contract's
   inbox (as of the acknowledged momentum) at position "number of receives the contract has made", i.e. the head of its
   line; a send it has already received, the second in line, a send addressed to another account, an unknown hash are
   refused whatever else holds, and the head is never refused *)
Theorem C04_contract_receive_iff_head : forall E es keep b h,
  let n0 := run_node E genesis_node es in
  let n := mkNode (chain n0) (keep_first (Z.to_nat keep) (b_addr b) (pool n0)) in
  b_kind b = BRecv h -> is_emb (b_addr b) = true ->
  1 <= b_ma b <= Z.of_nat (length (chain n)) ->
  (check_blk E n b = 0 <->
   nth_error (inbox_at (b_addr b) (firstn (Z.to_nat (b_ma b)) (chain n)))
             (length (recvs_of (b_addr b) (blocks_of n))) = Some h).
Proof.
  intros E es keep b h n0 n. apply (contract_receive_iff_head E n b h).
  apply WFN_keep_first. apply run_node_wf. apply WFN_genesis.
Qed.

(* ... and the send an accepted contract receive takes is the first one of the contract's whole inbox that it has not
   received: no entry is repeated, none is skipped *)
Theorem C04_contract_receive_takes_head : forall E es keep b h,
  let n0 := run_node E genesis_node es in
  let n := mkNode (chain n0) (keep_first (Z.to_nat keep) (b_addr b) (pool n0)) in
  b_kind b = BRecv h -> is_emb (b_addr b) = true ->
  check_blk E n b = 0 ->
  nth_error (inbox_at (b_addr b) (chain n)) (length (recvs_of (b_addr b) (blocks_of n))) = Some h /\
  ~ In h (recvs_of (b_addr b) (blocks_of n)).
Proof.
  intros E es keep b h n0 n. apply (contract_receive_takes_head E n b h).
  apply WFN_keep_first. apply run_node_wf. apply WFN_genesis.
Qed.

(* non-vacuity: two calls of contract 2 confirmed by ONE momentum; the contract receives the first; with exactly one send
   in line a receive of the first AGAIN is refused (at the frontier and as a competing block for the position of its
   receive's successor), so are the send of another account's inbox and an unknown hash; the one in line is accepted *)
Definition ex_line_events : list event :=
  [ EBlock 99 true (mkBlk 1000 100 (BSend 2) 1 []);
    EBlock 99 true (mkBlk 1001 101 (BSend 2) 1 []);
    EBlock 99 true (mkBlk 1002 101 (BSend 3) 1 []);
    EMomentum [1001; 1002; 1000];
    EBlock 99 false (mkBlk 1003 2 (BRecv 1000) 2 []);
    EBlock 99 true (mkBlk 1004 2 (BRecv 1001) 2 []);
    EBlock 99 false (mkBlk 1005 2 (BRecv 1001) 2 []);
    EBlock 99 false (mkBlk 1006 2 (BRecv 1002) 2 []);
    EBlock 99 false (mkBlk 1007 2 (BRecv 4242) 2 []);
    EBlock 99 true (mkBlk 1008 2 (BRecv 1000) 2 []);
    EBlock 1 false (mkBlk 1009 2 (BRecv 1001) 2 []);
    EBlock 99 false (mkBlk 1010 2 (BRecv 1000) 2 []) ].
Example C04_one_in_line_example :
  let '(codes, n) := run_codes 0 genesis_node ex_line_events in
  codes = [0; 0; 0; 0; E_SEQ_NOT_NEXT; 0; E_SEQ_NOT_NEXT; E_MISMATCH; E_FROM_MISSING; 0; E_SEQ_NOT_NEXT; E_SEQ_NOTHING] /\
  inbox_at 2 (chain n) = [1001; 1000] /\ recvs_of 2 (blocks_of n) = [1001; 1000].
Proof. vm_compute. repeat split; reflexivity. Qed.

(* the decision of fromHash() + sequencer(): accepted only if the send exists in the acknowledged momentum's store,
   is addressed to the receiver, is not marked received, and for a contract is the next in line *)
Theorem C04_recv_check_sound : forall a h sendto received next,
  recv_check true a h sendto received next = 0 ->
  sendto = Some a /\ received = false /\ (is_emb a = true -> next = Some h).
Proof.
  intros a h sendto received next. unfold recv_check.
  destruct sendto as [to|]; [|unfold E_FROM_MISSING; discriminate].
  cbn [andb]. destruct (to =? a) eqn:T; cbn [negb]; [|unfold E_MISMATCH; discriminate].
  apply Z.eqb_eq in T; subst to.
  destruct received; [unfold E_ALREADY; discriminate|].
  destruct (is_emb a).
  - destruct next as [h'|]; [|unfold E_SEQ_NOTHING; discriminate].
    destruct (h' =? h) eqn:E; [|unfold E_SEQ_NOT_NEXT; discriminate].
    apply Z.eqb_eq in E; subst. auto.
  - intros _. repeat split; auto. discriminate.
Qed.
(* ... below the enforcement height: the send exists, THIS account has not received it, a contract takes the next in line *)
Theorem C04_recv_check_sound_legacy : forall a h sendto received next,
  recv_check false a h sendto received next = 0 ->
  (exists to, sendto = Some to) /\ received = false /\ (is_emb a = true -> next = Some h).
Proof.
  intros a h sendto received next. unfold recv_check.
  destruct sendto as [to|]; [|unfold E_FROM_MISSING; discriminate].
  cbn [andb]. destruct received; [unfold E_ALREADY; discriminate|].
  destruct (is_emb a).
  - destruct next as [h'|]; [|unfold E_SEQ_NOTHING; discriminate].
    destruct (h' =? h) eqn:E; [|unfold E_SEQ_NOT_NEXT; discriminate].
    apply Z.eqb_eq in E; subst. eauto.
  - intros _. repeat split; eauto. discriminate.
Qed.

(* record: below the enforcement height two different accounts could receive one send (protocol history) *)
Theorem C04_pre_enforcement_refuted :
  length (receivers 1000 (blocks_of (run_node 100 genesis_node pre_enf_events))) = 2%nat.
Proof. exact pre_enforcement_two_receivers. Qed.

(* non-vacuity: competing receives (same account, other account), out-of-order contract receive, replacement of an
   unconfirmed receive, rollback of the momentum that confirmed a receive; the send 1000 ends up received once *)
Definition ex_events : list event :=
  [ EBlock 99 true (mkBlk 1000 100 (BSend 101) 1 []);
    EBlock 99 true (mkBlk 1001 100 (BSend 2) 1 []);
    EBlock 99 true (mkBlk 1002 103 (BSend 2) 1 []);
    EMomentum [1002; 1000; 1001];
    EBlock 99 true (mkBlk 1003 101 (BRecv 1000) 2 []);
    EBlock 99 true (mkBlk 1004 101 (BRecv 1000) 2 []);
    EBlock 99 true (mkBlk 1005 102 (BRecv 1000) 2 []);
    EBlock 99 true (mkBlk 1006 2 (BRecv 1001) 2 []);
    EBlock 99 true (mkBlk 1007 2 (BRecv 1002) 2 [(1008, 103)]);
    EBlock 0 true (mkBlk 1009 101 (BSend 100) 2 []);
    EBlock 99 true (mkBlk 1010 101 (BRecv 1000) 2 []);
    EMomentum [1007; 1009; 1010];
    ERollback;
    EBlock 99 true (mkBlk 1011 101 (BRecv 1000) 2 []) ].
Example C04_history_example :
  let '(codes, n) := run_codes 0 genesis_node ex_events in
  codes = [0; 0; 0; 0; 0; E_ALREADY; E_MISMATCH; E_SEQ_NOT_NEXT; 0; 0; 0; 0; 0; 0] /\
  map b_hash (receivers 1000 (blocks_of n)) = [1011] /\ inbox_at 2 (chain n) = [1002; 1001] /\ recvs_of 2 (blocks_of n) = [].
Proof. vm_compute. repeat split; reflexivity. Qed.

(* non-vacuity across the switch-over (enforcement height 3): before it account 102, not the addressee, receives send
   1000 once and is refused a second time; after it 102 is refused send 1001 as a non-addressee, the addressee 101 still
   receives 1000; a rollback takes the node back below the enforcement height, where 103 may receive 1000 as well *)
Definition ex_switch_events : list event :=
  [ EBlock 99 true (mkBlk 1000 100 (BSend 101) 1 []);
    EBlock 99 true (mkBlk 1001 100 (BSend 101) 1 []);
    EMomentum [1000; 1001];
    EBlock 99 true (mkBlk 1002 102 (BRecv 1000) 2 []);
    EBlock 99 true (mkBlk 1003 102 (BRecv 1000) 2 []);
    EMomentum [1002];
    EBlock 99 true (mkBlk 1004 102 (BRecv 1001) 3 []);
    EBlock 99 true (mkBlk 1005 102 (BRecv 1000) 3 []);
    EBlock 99 true (mkBlk 1006 101 (BRecv 1000) 3 []);
    EMomentum [1006];
    ERollback; ERollback;
    EBlock 99 true (mkBlk 1007 103 (BRecv 1000) 2 []) ].
Example C04_switch_over_example :
  let '(codes, n) := run_codes 3 genesis_node ex_switch_events in
  codes = [0; 0; 0; 0; E_ALREADY; 0; E_MISMATCH; E_MISMATCH; 0; 0; 0; 0; 0] /\
  map b_hash (receivers 1000 (blocks_of n)) = [1007] /\
  map b_hash (receivers 1000 (blocks_of (run_node 3 genesis_node (firstn 10 ex_switch_events)))) = [1002; 1006] /\
  map b_hash (receivers_from 3 1000 (blocks_of (run_node 3 genesis_node (firstn 10 ex_switch_events)))) = [1006].
Proof. vm_compute. repeat split; reflexivity. Qed.

(* the receive decision the theorems above are about is the code: fromHash() then sequencer() of
   verifier.accountBlockVerifier as translated from /repo's source by go2coq on every run; the send block found at the
   acknowledged momentum, the received marker, the head of the inbox, the frontier and enforcement heights are inputs *)
Theorem C04_receive_decision_is_the_source : forall t a h sendto received nextinline fh E (hdr : Z -> Z),
  (forall x y, hdr x = hdr y -> x = y) ->
  t = 3 \/ t = 5 ->
  mbcode (src_recv_check t a h sendto received nextinline fh E hdr)
  = recv_check (E <=? fh) a h sendto received nextinline.
Proof. exact recv_check_is_source. Qed.

