(* C16 — Sync adopts only verified, strictly longer chains within the rollback window.
   Only statements; each is closed by a lemma proved in theories/. [valid chain d] is the verification oracle:
   every account block of d and d itself pass Supervisor.ApplyBlock / ApplyMomentum on top of [chain]. *)
From ZV Require Import Prelude GoSem Sync SyncProofs.
Open Scope Z_scope.

(* Whatever is delivered, the resulting chain is a prefix of the old chain extended ONLY by momentums that, at the
   moment they were appended, had a known previous momentum, passed full verification and extended the frontier. *)
Theorem C16_only_verified :
  forall (valid : list smom -> smom -> bool) fixed c ds r c',
  insert_chain valid fixed c ds = (r, c') ->
  exists kept, is_prefix kept c /\ grown valid kept c'.
Proof. exact only_verified. Qed.

(* On a verification failure the reported index is the position, in the delivered batch, of the element that failed
   on top of the chain the node now holds (everything appended before it was verified, by C16_only_verified). *)
Theorem C16_failure_index :
  forall (valid : list smom -> smom -> bool) fixed c ds i c',
  insert_chain valid fixed c ds = (ICErr i EInvalid, c') ->
  exists pre d post, ds = pre ++ d :: post /\ i = Z.of_nat (length pre) /\
                     known_prev c' d && valid c' d = false.
Proof. exact failure_index. Qed.

(* Re-delivering momentums the node already has (same hash at the same height) changes nothing and reports (0, ok). *)
Theorem C16_idempotent :
  forall (valid : list smom -> smom -> bool) fixed c ds, ds <> [] ->
  Forall (fun d => exists our, by_height c (s_height d) = Some our /\ s_hash our = s_hash d) ds ->
  insert_chain valid fixed c ds = (ICOk, c).
Proof. exact idempotent. Qed.

(* If any own momentum is abandoned (the old chain is not a prefix of the new one), then the first unknown delivered
   momentum sits directly on an own momentum at most 30 below the frontier, and the batch ends above the frontier. *)
Theorem C16_leave_implies :
  forall (valid : list smom -> smom -> bool) fixed c ds r c',
  insert_chain valid fixed c ds = (r, c') -> ~ is_prefix c c' ->
  exists start head rest' fr target,
    skip_known c ds 0 = (start, head :: rest') /\ frontier c = Some fr /\
    by_height c (u64 (s_height head - 1)) = Some target /\ prev_is head target = true /\
    u64 (s_height fr - s_height target) <= 30 /\
    s_height fr < s_height (last (head :: rest') head).
Proof. exact leave_implies. Qed.

(* After fix 777dfea no delivered batch makes InsertChain panic (empty batch, first unknown momentum above
   frontier+1 or at height 0, any heights, any hashes) ... *)
Theorem C16_no_panic :
  forall (valid : list smom -> smom -> bool) c ds, fst (insert_chain valid true c ds) <> ICPanic.
Proof. exact no_panic. Qed.

(* ... record of finding F9 (fixed in /repo): before the fix both inputs panicked, on a goroutine without recover *)
Theorem C16_panic_before_fix_refuted :
  (exists c ds, wf_chain c /\ ds <> [] /\ fst (insert_chain (fun _ _ => true) false c ds) = ICPanic) /\
  (exists c, wf_chain c /\ fst (insert_chain (fun _ _ => true) false c []) = ICPanic).
Proof. exact panic_before_fix. Qed.

(* KNOWN FINDING F11 (key insertchain-rollback-before-verify): "leaves its chain ONLY for a delivered chain whose
   every momentum passes verification" does not hold: the rollback happens before anything is verified. Witness:
   own chain 1..5, delivered fork 3'..6' from momentum 2 whose second element is invalid -> the node keeps 1,2,3'. *)
Theorem C16_leave_only_for_valid_refuted :
  exists valid c ds r c',
    wf_chain c /\ insert_chain valid true c ds = (r, c') /\
    ~ is_prefix c c' /\ (exists i, r = ICErr i EInvalid) /\ (length c' < length c)%nat.
Proof. exact leave_only_for_valid_refuted. Qed.

(* ... and holds for exactly the complementary class: when the unknown part of the delivered batch is a linked chain
   that passes verification in order on top of the fork point, leaving ends with ALL of it adopted, strictly longer. *)
Theorem C16_leave_only_for_valid_partial :
  forall (valid : list smom -> smom -> bool) c ds r c',
  wf_chain c ->
  insert_chain valid true c ds = (r, c') -> ~ is_prefix c c' ->
  forall start head rest', skip_known c ds 0 = (start, head :: rest') ->
  linked (head :: rest') -> Forall in_range (head :: rest') ->
  (forall target, by_height c (u64 (s_height head - 1)) = Some target ->
                  valid_in_order valid (rollback_to c (s_height target)) (head :: rest')) ->
  exists target,
    by_height c (u64 (s_height head - 1)) = Some target /\
    r = ICOk /\ c' = rollback_to c (s_height target) ++ head :: rest' /\ (length c < length c')%nat.
Proof. exact leave_only_for_valid_partial. Qed.

(* non-vacuity: a valid longer fork is adopted *)
Example C16_adopt_example :
  insert_chain (fun _ _ => true) true ex_local ex_side =
  (ICOk, [mkS 1 0 1; mkS 2 1 2; mkS 13 2 3; mkS 14 13 4; mkS 15 14 5; mkS 16 15 6]).
Proof. vm_compute. reflexivity. Qed.
