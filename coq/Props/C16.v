(* C16 — Sync adopts only verified, strictly longer chains within the rollback window.
   Only statements; each is closed by a lemma proved in theories/. The verification oracles: [bvalid chain pool b] =
   Supervisor.ApplyBlock accepts account block b on top of [chain] with the unconfirmed pool [pool];
   [mvalid chain pool d] = Supervisor.ApplyMomentum accepts the delivered momentum d on top of [chain] with the pool as
   it is after d's account blocks went through the loop.
   The node is (own momentums, identifiers of the pooled unconfirmed account blocks). InsertChain does NOT verify a
   delivered block that has a patch in the pool; [pool_verified] is the invariant that makes this sound: every
   pooled block passed verification on the chain or on an earlier state of it that the chain still extends. The
   last argument [true] of insert_chain is accountPool.DeleteMomentum dropping the whole pool on a rollback. *)
From ZV Require Import Prelude GoSem Sync SyncProofs SyncSource.
Require ZV.gen.Pure ZV.gen.PureSync.
Open Scope Z_scope.

(* Whatever is delivered, the resulting chain is a prefix of the old chain extended ONLY by momentums that, at the
   moment they were appended, had a known previous momentum, had every account block verified (then, or while pooled
   on a state the chain still extends), passed full verification and extended the frontier; and the pool invariant
   holds again afterwards. *)
Theorem C16_only_verified :
  forall (bvalid : list smom -> list blk -> blk -> bool) (mvalid : list smom -> list blk -> dmom -> bool) fixed c p ds r c' p',
  pool_verified bvalid c p ->
  insert_chain bvalid mvalid fixed true c p ds = (r, (c', p')) ->
  exists kept, is_prefix kept c /\ grown bvalid mvalid kept c' /\ pool_verified bvalid c' p'.
Proof. exact only_verified. Qed.

(* Over whole histories of a syncing node (deliveries through InsertChain, broadcast account blocks through
   AddAccountBlocks), starting with an empty pool: every momentum on the chain is one the node started with or was
   adopted after full verification of itself and of all its account blocks, and every pooled block is verified. *)
Theorem C16_history_only_verified :
  forall (bvalid : list smom -> list blk -> blk -> bool) (mvalid : list smom -> list blk -> dmom -> bool) c0 ops,
  Forall (justified bvalid mvalid c0) (fst (run bvalid mvalid (c0, []) ops)) /\
  pool_verified bvalid (fst (run bvalid mvalid (c0, []) ops)) (snd (run bvalid mvalid (c0, []) ops)).
Proof. exact history_only_verified. Qed.

(* When own momentums are abandoned nothing of the old pool takes part: the result is that of the apply loop started
   on the rolled-back chain with an EMPTY pool (every delivered account block is verified on the new branch). *)
Theorem C16_rollback_empties_pool :
  forall (bvalid : list smom -> list blk -> blk -> bool) (mvalid : list smom -> list blk -> dmom -> bool) fixed c p ds r c' p',
  insert_chain bvalid mvalid fixed true c p ds = (r, (c', p')) -> ~ is_prefix c c' ->
  exists target start rest,
    skip_known c ds 0 = (start, rest) /\ rest <> [] /\
    apply_all bvalid mvalid (rollback_to c (s_height target)) [] rest start = (r, (c', p')).
Proof. exact rollback_empties_pool. Qed.

(* ... and this is needed: if pooled blocks survived the rollback (DeleteMomentum keeping entries), a side chain
   carrying a block that was verified only against the abandoned branch is adopted with that block unverified. *)
Theorem C16_pool_kept_across_rollback_refuted :
  exists bvalid mvalid c p ds c' p',
    wf_chain c /\ pool_verified bvalid c p /\
    insert_chain bvalid mvalid true false c p ds = (ICOk, (c', p')) /\
    exists d b, In d ds /\ In (d_mom d) c' /\ In b (d_blocks d) /\ ~ verified_on bvalid c' b.
Proof. exact pool_kept_refuted. Qed.

(* On a verification failure the reported index is the position, in the DELIVERED batch (known prefix included), of
   the element that failed on top of the chain the node now holds: one of its account blocks without a patch in the
   pool, or the momentum itself (everything appended before it was verified, by C16_only_verified). *)
Theorem C16_failure_index :
  forall (bvalid : list smom -> list blk -> blk -> bool) (mvalid : list smom -> list blk -> dmom -> bool) fixed clears c p ds i c' p',
  insert_chain bvalid mvalid fixed clears c p ds = (ICErr i EInvalid, (c', p')) ->
  exists pre d post, ds = pre ++ d :: post /\ i = Z.of_nat (length pre) /\
    ((exists b, In b (d_blocks d) /\ pooled b p' = false /\ bvalid c' p' b = false) \/
     known_prev c' (d_mom d) && mvalid c' p' d = false).
Proof. exact failure_index. Qed.

(* Re-delivering momentums the node already has (same hash at the same height) changes nothing and reports (0, ok). *)
Theorem C16_idempotent :
  forall (bvalid : list smom -> list blk -> blk -> bool) (mvalid : list smom -> list blk -> dmom -> bool) fixed clears c p ds, ds <> [] ->
  Forall (fun d => exists our, by_height c (s_height (d_mom d)) = Some our /\ s_hash our = s_hash (d_mom d)) ds ->
  insert_chain bvalid mvalid fixed clears c p ds = (ICOk, (c, p)).
Proof. exact idempotent. Qed.

(* If any own momentum is abandoned (the old chain is not a prefix of the new one), then the first unknown delivered
   momentum sits directly on an own momentum at most 30 below the frontier, and the batch ends above the frontier. *)
Theorem C16_leave_implies :
  forall (bvalid : list smom -> list blk -> blk -> bool) (mvalid : list smom -> list blk -> dmom -> bool) fixed clears c p ds r c' p',
  insert_chain bvalid mvalid fixed clears c p ds = (r, (c', p')) -> ~ is_prefix c c' ->
  exists start head rest' fr target,
    skip_known c ds 0 = (start, head :: rest') /\ frontier c = Some fr /\
    by_height c (u64 (s_height (d_mom head) - 1)) = Some target /\ prev_is (d_mom head) target = true /\
    u64 (s_height fr - s_height target) <= 30 /\
    s_height fr < s_height (d_mom (last (head :: rest') head)).
Proof. exact leave_implies. Qed.

(* The insert lock serialises the writers of a node (own pillar, fetcher, downloader, broadcast blocks); InsertChain
   takes it before it reads anything. Whatever writer [w] was served first: the decisions are those for the state under
   the lock [w st] - own momentums of THAT state (the other writer's included) are abandoned only for a batch whose first
   unknown momentum sits on an own momentum at most 30 below the frontier under the lock, and that ends above it. *)
Theorem C16_decides_under_lock :
  forall (bvalid : list smom -> list blk -> blk -> bool) (mvalid : list smom -> list blk -> dmom -> bool) fixed clears
         (w : nstate -> nstate) st ds st1 r c' p',
  insert_chain_locked bvalid mvalid fixed clears w st ds = (st1, (r, (c', p'))) ->
  st1 = w st /\
  (~ is_prefix (fst st1) c' ->
   exists start head rest' fr target,
     skip_known (fst st1) ds 0 = (start, head :: rest') /\ frontier (fst st1) = Some fr /\
     by_height (fst st1) (u64 (s_height (d_mom head) - 1)) = Some target /\ prev_is (d_mom head) target = true /\
     u64 (s_height fr - s_height target) <= 30 /\
     s_height fr < s_height (d_mom (last (head :: rest') head))).
Proof. exact decides_under_lock. Qed.

(* ... in particular, when the node's own pillar produced momentums while the batch was waiting for the lock, the node
   leaves its chain (these momentums included) only for a delivered chain ending above the last of them. *)
Theorem C16_longer_than_own_production :
  forall (bvalid : list smom -> list blk -> blk -> bool) (mvalid : list smom -> list blk -> dmom -> bool) fixed clears
         c p own d ds st1 r c' p',
  insert_chain_locked bvalid mvalid fixed clears (produce_all (own ++ [d])) (c, p) ds = (st1, (r, (c', p'))) ->
  ~ is_prefix (c ++ map d_mom (own ++ [d])) c' ->
  exists head rest', s_height (d_mom d) < s_height (d_mom (last (head :: rest') head)) /\
                     exists start, skip_known (c ++ map d_mom (own ++ [d])) ds 0 = (start, head :: rest').
Proof. exact longer_than_own_production. Qed.

(* ... and the order is needed: if the frontier store and the known prefix are read BEFORE the lock is taken
   (insert_chain_stale: decisions on the snapshot, rollback and insertion on the real chain), a pillar momentum produced in
   between makes the node leave its chain for a delivered chain that is only as long as its own. *)
Theorem C16_read_before_lock_refuted :
  exists bvalid mvalid c own ds c' p',
    wf_chain c /\ own <> [] /\
    insert_chain_stale bvalid mvalid true c (fst (produce_all own (c, []))) [] ds = (ICOk, (c', p')) /\
    ~ is_prefix (fst (produce_all own (c, []))) c' /\
    length c' = length (fst (produce_all own (c, []))).
Proof. exact stale_snapshot_refuted. Qed.

(* After fix 777dfea no delivered batch makes InsertChain panic (empty batch, first unknown momentum above
   frontier+1 or at height 0, any heights, any hashes) ... *)
Theorem C16_no_panic :
  forall (bvalid : list smom -> list blk -> blk -> bool) (mvalid : list smom -> list blk -> dmom -> bool) clears c p ds,
  fst (insert_chain bvalid mvalid true clears c p ds) <> ICPanic.
Proof. exact no_panic. Qed.

(* ... record of finding F9 (fixed in /repo): before the fix both inputs panicked, on a goroutine without recover *)
Theorem C16_panic_before_fix_refuted :
  (exists c ds, wf_chain c /\ ds <> [] /\ fst (insert_chain all_b all_m false true c [] ds) = ICPanic) /\
  (exists c, wf_chain c /\ fst (insert_chain all_b all_m false true c [] []) = ICPanic).
Proof. exact panic_before_fix. Qed.

(* KNOWN FINDING F11 (key insertchain-rollback-before-verify): "leaves its chain ONLY for a delivered chain whose
   every momentum passes verification" does not hold: the rollback happens before anything is verified. Witness:
   own chain 1..5, delivered fork 3'..6' from momentum 2 whose second element is invalid -> the node keeps 1,2,3'. *)
Theorem C16_leave_only_for_valid_refuted :
  exists bvalid mvalid c ds r c' p',
    wf_chain c /\ insert_chain bvalid mvalid true true c [] ds = (r, (c', p')) /\
    ~ is_prefix c c' /\ (exists i, r = ICErr i EInvalid) /\ (length c' < length c)%nat.
Proof. exact leave_only_for_valid_refuted. Qed.

(* ... and holds for exactly the complementary class: when the unknown part of the delivered batch is a linked chain
   whose account blocks and momentums pass verification in order on top of the fork point (starting from the emptied
   pool), leaving ends with ALL of it adopted, strictly longer. *)
Theorem C16_leave_only_for_valid_partial :
  forall (bvalid : list smom -> list blk -> blk -> bool) (mvalid : list smom -> list blk -> dmom -> bool) c p ds r c' p',
  wf_chain c ->
  insert_chain bvalid mvalid true true c p ds = (r, (c', p')) -> ~ is_prefix c c' ->
  forall start head rest', skip_known c ds 0 = (start, head :: rest') ->
  linked (map d_mom (head :: rest')) -> Forall in_range (map d_mom (head :: rest')) ->
  (forall target, by_height c (u64 (s_height (d_mom head) - 1)) = Some target ->
                  valid_in_order bvalid mvalid (rollback_to c (s_height target)) [] (head :: rest')) ->
  exists target,
    by_height c (u64 (s_height (d_mom head) - 1)) = Some target /\
    r = ICOk /\ c' = rollback_to c (s_height target) ++ map d_mom (head :: rest') /\ (length c < length c')%nat.
Proof. exact leave_only_for_valid_partial. Qed.

(* non-vacuity: a valid longer fork is adopted; a pooled block delivered in an extension is not verified again *)
Example C16_adopt_example :
  insert_chain all_b all_m true true ex_local [] ex_side =
  (ICOk, ([mkS 1 0 1; mkS 2 1 2; mkS 13 2 3; mkS 14 13 4; mkS 15 14 5; mkS 16 15 6], [])).
Proof. vm_compute. reflexivity. Qed.
Example C16_pooled_block_skipped_example :
  insert_chain (fun _ _ _ => false) all_m true true ex_local [b77] [mkD (mkS 6 5 6) [b77] [b77]] =
  (ICOk, (ex_local ++ [mkS 6 5 6], [])).
Proof. vm_compute. reflexivity. Qed.
Example C16_under_lock_example :
  insert_chain_locked all_b all_m true true (produce_all ex_own) (ex_local, []) ex_side =
  ((ex_local ++ [mkS 6 5 6], []), (ICErr 0 ENotLonger, (ex_local ++ [mkS 6 5 6], []))).
Proof. exact locked_example. Qed.
Example C16_pool_dropped_example :
  insert_chain ex_ack5 all_m true true ex_local [b77] ex_side77 =
  (ICErr 1 EInvalid, ([mkS 1 0 1; mkS 2 1 2; mkS 13 2 3], [])).
Proof. exact pool_dropped_example. Qed.

(* What an adopted momentum LISTS. Supervisor.ApplyMomentum with its pool part explicit ([apply_momentum false rest]:
   vm.MomentumVM.applyMomentum takes the pool's patch of every header of the content; a header without a patch is a
   nil-pointer panic recovered as ErrVmRunPanic): the resulting chain is a prefix of the old one extended only by momentums
   EVERY listed block of which passed verification on a state the chain still extends - whether or not the sync loop
   looked at a block for that header (it skips delivered BlockTypeContractSend blocks; a header may come without any
   block) -, and which passed everything else ApplyMomentum checks. *)
Theorem C16_adopted_content_verified :
  forall (bvalid : list smom -> list blk -> blk -> bool) (rest : list smom -> dmom -> bool) fixed c p ds r c' p',
  pool_verified bvalid c p ->
  insert_chain bvalid (apply_momentum false rest) fixed true c p ds = (r, (c', p')) ->
  exists kept, is_prefix kept c /\ grown_listed bvalid rest kept c' /\ pool_verified bvalid c' p'.
Proof. exact adopted_content_verified. Qed.

(* ... and the panic is needed: in the variant that skips a header without a patch (`patch == nil || len(patch.Dump()) == 0`
   in momentumStore.AddAccountBlockTransaction) a momentum of the elected producer that lists a bare contract send -
   delivered with it, skipped by the loop, carried by no contract receive - is adopted although the block verifies nowhere. *)
Theorem C16_unheld_header_skipped_refuted :
  exists bvalid rest c ds c' p',
    wf_chain c /\ pool_verified bvalid c [] /\
    insert_chain bvalid (apply_momentum true rest) true true c [] ds = (ICOk, (c', p')) /\
    exists d h, In d ds /\ In (d_mom d) c' /\ In h (d_content d) /\ forall c0 p0, bvalid c0 p0 h = false.
Proof. exact unheld_header_skipped_refuted. Qed.
Example C16_unheld_header_example :
  insert_chain none_b (apply_momentum false all_r) true true ex_local [] ex_listing = (ICErr 0 EInvalid, (ex_local, [])).
Proof. exact unheld_header_example. Qed.

(* ---- the side-chain decision of the model IS the code: the statement `if head.Previous() != ourFrontier.Identifier()`
   of chainBridge.InsertChain translated from /repo's source by go2coq on every run (a fragment: gen/PureSync.v), with
   the frontier, the unknown part's head and tail, the momentum at head.Height-1 and RollbackTo's result as inputs;
   (-1, nil) = the statement falls through to the insertion loop *)
Theorem C16_side_chain_decision_is_the_source :
  forall (enc : Z -> Z -> Z), (forall a b a' b', enc a b = enc a' b' -> a = a' /\ b = b') ->
  forall c fr head tail start,
  let target := by_height c (u64 (s_height head - 1)) in
  ZV.gen.PureSync.InsertChain_sidechain start (prev_id enc head) (ident enc fr) 0
    (match target with Some _ => true | None => false end)
    (match target with Some t => ident enc t | None => 0 end)
    (s_height fr) (match target with Some t => s_height t | None => 0 end) (s_height tail) 0
  = match side_decision c fr head tail with
    | None => (-1, 0)
    | Some ELink => (start, ZV.gen.Pure.Err_new_can_t_link_momentums_to_insert__First_momentum_P)
    | Some ETooFar => (start, ZV.gen.Pure.Err_new_can_t_rollback_to__v__Too_far__Frontier_is__v__W)
    | Some _ => (start, ZV.gen.Pure.Err_new_won_t_insert_side_chain_which_is_not_longer)
    end.
Proof. exact side_chain_is_source. Qed.
Theorem C16_insert_chain_uses_side_decision : forall bvalid mvalid clears c pool ds start head rest fr,
  ds <> [] ->
  skip_known c ds 0 = (start, head :: rest) ->
  frontier c = Some fr ->
  let tail := last (head :: rest) head in
  insert_chain bvalid mvalid true clears c pool ds =
  match side_decision c fr (d_mom head) (d_mom tail) with
  | Some e => (ICErr start e, (c, pool))
  | None =>
    if prev_is (d_mom head) fr then apply_all bvalid mvalid c pool (head :: rest) start
    else match by_height c (u64 (s_height (d_mom head) - 1)) with
         | Some target => apply_all bvalid mvalid (rollback_to c (s_height target)) (if clears then [] else pool) (head :: rest) start
         | None => (ICErr start ELink, (c, pool))
         end
  end.
Proof. exact insert_chain_uses_side_decision. Qed.

