(* C13 — A block's hash pins down its stored bytes and its effect; codecs round-trip.
   Only statements; each is closed by a lemma proved in theories/.
   H = SHA3-256 (types.NewHash), verify = ed25519.Verify, pk_addr = types.PubKeyToAddress are
   uninterpreted; ctx_* are the parts of verification / execution that read covered fields only. *)
From Coq Require Import Permutation.
From ZV Require Import Prelude PoWProofs Block BlockProofs CodecPb CodecPbProofs Dec DecProofs BlockAccept BlockAcceptProofs.
From ZV Require Import GoSem Abi AbiCanon AbiCanonProofs.
Open Scope Z_scope.

(* the pre-image of AccountBlock.ComputeHash determines every covered field *)
Theorem C13_preimage_injective : forall (H : bytes -> bytes),
  (forall x, length (H x) = 32%nat) ->
  forall x y : AB, ab_wf x -> ab_wf y ->
  (H (desc_source x) = H (desc_source y) -> desc_source x = desc_source y) ->
  (H (ab_data (body x)) = H (ab_data (body y)) -> ab_data (body x) = ab_data (body y)) ->
  ab_preimage H x = ab_preimage H y -> ab_covered x = ab_covered y.
Proof. exact ab_preimage_injective. Qed.

(* same for Momentum.ComputeHash: version, chain id, previous, height, timestamp, data, content, changes hash *)
Theorem C13_momentum_preimage_injective : forall (H : bytes -> bytes),
  (forall x, length (H x) = 32%nat) ->
  forall m n : Mom, mom_wf m -> mom_wf n ->
  (H (m_data m) = H (m_data n) -> m_data m = m_data n) ->
  (H (content_bytes (m_content m)) = H (content_bytes (m_content n)) ->
   content_bytes (m_content m) = content_bytes (m_content n)) ->
  mom_preimage H m = mom_preimage H n -> mom_covered m = mom_covered n.
Proof. exact mom_preimage_injective. Qed.

(* DeserializeAccountBlock (b.Serialize()) = b for every block with its whole descendant tree
   (every field survives, so the hash is preserved) *)
Theorem C13_pb_roundtrip : forall x : AB, pb_ok x -> deserialize_ab (serialize_ab x) = DOk x.
Proof. exact ab_pb_roundtrip. Qed.

Theorem C13_pb_roundtrip_momentum : forall m : Mom, mom_ok m -> deserialize_mom (serialize_mom m) = DOk m.
Proof. exact mom_pb_roundtrip. Qed.

(* the wire bytes determine the block: two different blocks never serialize to the same bytes *)
Theorem C13_serialize_injective : forall x y : AB, pb_ok x -> pb_ok y -> serialize_ab x = serialize_ab y -> x = y.
Proof. exact serialize_ab_inj. Qed.

(* JSON scalars: amount as decimal text, hash / nonce as hex text, for every integer / byte string *)
Theorem C13_json_scalars :
  (forall z : Z, parse_dec (print_dec z) = z) /\
  (forall b : bytes, Forall byte b -> hex_dec (hex_enc b) = Some b) /\
  (forall h : bytes, Forall byte h -> length h = 32%nat -> parse_hash (hex_enc h) = Some h) /\
  (forall n : bytes, Forall byte n -> length n = 8%nat -> parse_nonce (hex_enc n) = Some n).
Proof. exact (conj parse_print_dec (conj hex_roundtrip (conj hash_text_roundtrip nonce_text_roundtrip))). Qed.

(* NewMomentumContent: the content does not depend on the order in which the blocks are handed in *)
Theorem C13_content_order_canonical : forall hs hs' : list AHeader,
  (forall x y, In x hs -> In y hs -> aheader_bytes x = aheader_bytes y -> x = y) ->
  Permutation hs hs' -> new_momentum_content hs = new_momentum_content hs'.
Proof. exact (sort_by_perm_invariant aheader_bytes). Qed.

(* an accepted user block is stored as delivered except BasePlasma / TotalPlasma, which are
   functions of the covered fields and the context (vm.enoughPlasma overwrites them) *)
Theorem C13_recomputed_fields : forall H verify pk_addr ctx_plasma ctx_rest (x s : AB),
  accept_user H verify pk_addr ctx_plasma ctx_rest x = Some s ->
  exists total base, ctx_plasma (ab_covered x) = Some (total, base) /\
    ab_base (body s) = base /\ ab_total (body s) = total /\
    s = ABNode (set_plasma (body x) base total) [].
Proof. exact recomputed_fields. Qed.

(* two accepted user blocks with the same hash and the same (ChangesHash, PublicKey, Signature):
   same stored block, same patch, same stored bytes. Partial: the hypothesis on ChangesHash excludes
   exactly the known finding below. *)
Theorem C13_effect_pinned_partial : forall (H : bytes -> bytes),
  (forall x, length (H x) = 32%nat) ->
  forall verify pk_addr ctx_plasma ctx_rest ctx_patch (x1 x2 s1 : AB) p1 w1 (s2 : AB) p2 w2,
  accept_user_tx H verify pk_addr ctx_plasma ctx_rest ctx_patch x1 = Some (s1, p1, w1) ->
  accept_user_tx H verify pk_addr ctx_plasma ctx_rest ctx_patch x2 = Some (s2, p2, w2) ->
  ab_wf x1 -> ab_wf x2 ->
  collision_free H (inputs_of H x1 ++ inputs_of H x2) ->
  ab_hash (body x1) = ab_hash (body x2) ->
  ab_changes (body x1) = ab_changes (body x2) -> ab_pk (body x1) = ab_pk (body x2) ->
  ab_sig (body x1) = ab_sig (body x2) ->
  s1 = s2 /\ p1 = p2 /\ w1 = w2.
Proof. exact effect_pinned. Qed.

(* known finding F10 (user-block-changeshash-variant): every accepted user block has, for every other
   32-byte ChangesHash, a variant that anyone can produce (same hash, same signature), that is accepted
   with the same patch, and whose stored bytes differ *)
Theorem C13_variant_refuted : forall H verify pk_addr ctx_plasma ctx_rest ctx_patch (x s : AB) p w ch,
  accept_user_tx H verify pk_addr ctx_plasma ctx_rest ctx_patch x = Some (s, p, w) ->
  pb_ok s -> blen 32 ch -> ch <> ab_changes (body x) ->
  let x' := ABNode (set_changes (body x) ch) (desc x) in
  exists s' w', accept_user_tx H verify pk_addr ctx_plasma ctx_rest ctx_patch x' = Some (s', p, w') /\
                ab_hash (body x') = ab_hash (body x) /\ w' <> w.
Proof. exact changeshash_variant. Qed.

(* contract receive, code after fix 3d79e01: the accepted block and each of its descendants agree with
   the block the node regenerates on every covered field (amount, recipient, token, data, ...) *)
Theorem C13_contract_receive_pinned : forall (H : bytes -> bytes),
  (forall x, length (H x) = 32%nat) ->
  forall desc_rest (g x s : AB),
  accept_cr H desc_rest (Some g) x = Some s ->
  ab_wf x -> ab_wf g -> Forall ab_wf (desc x) -> Forall ab_wf (desc g) ->
  Forall (fun e => H (ab_preimage H e) = ab_hash (body e)) (desc g) ->
  collision_free H (inputs_of H x ++ inputs_of H g) ->
  collision_free H (flat_map (inputs_of H) (desc x) ++ flat_map (inputs_of H) (desc g)) ->
  s = x /\ ab_covered x = ab_covered g /\ ab_changes (body x) = ab_changes (body g) /\
  map ab_covered (desc x) = map ab_covered (desc g).
Proof. exact contract_receive_pinned. Qed.

(* record of the defect fixed by 3d79e01: the code before it accepted ANY first descendant that kept
   the Hash field (and passed the stateless per-descendant checks), whatever its amount or recipient *)
Theorem C13_descendant_forgery_refuted : forall H desc_rest (g d : AB) ds (d' : AB),
  accept_cr_nofix H desc_rest (Some g) g = Some g -> desc g = d :: ds ->
  ab_hash (body d') = ab_hash (body d) -> desc_rest (ab_covered d') = true ->
  accept_cr_nofix H desc_rest (Some g) (ABNode (body g) (d' :: ds)) = Some (ABNode (body g) (d' :: ds)).
Proof. exact descendant_forgery_nofix. Qed.

(* known finding (contract-block-uncovered-fields-variant): the plasma fields of an accepted contract
   receive can be replaced by anyone; still accepted, same hash, different stored bytes *)
Theorem C13_contract_uncovered_refuted : forall H desc_rest (g x : AB) base total,
  accept_cr H desc_rest (Some g) x = Some x -> pb_ok x ->
  is_u64 base -> is_u64 total -> (base, total) <> (ab_base (body x), ab_total (body x)) ->
  let x' := ABNode (set_plasma (body x) base total) (desc x) in
  accept_cr H desc_rest (Some g) x' = Some x' /\ ab_hash (body x') = ab_hash (body x) /\
  serialize_ab x' <> serialize_ab x.
Proof. exact contract_uncovered_variant. Qed.

(* the call data of an accepted call of an embedded method (selector sel, argument types tys) is stored as it was
   delivered and is the canonical packing of the arguments it decodes to: ValidateSendBlock re-packs what it decoded
   and the hash is checked before and after (repack = PackMethod o UnpackMethod, decoder model Abi.v, packer model
   AbiCanon.v, both compared with the implementation on canonical, non-canonical and damaged call data) *)
Theorem C13_call_data_canonical : forall (H : bytes -> bytes),
  (forall x, length (H x) = 32%nat) ->
  forall sel tys static_ok (x s : AB), ab_wf x ->
  accept_call H sel tys static_ok x = Some s ->
  (H (ab_preimage H x) = H (ab_preimage H s) -> ab_preimage H x = ab_preimage H s) ->
  (H (ab_data (body x)) = H (ab_data (body s)) -> ab_data (body x) = ab_data (body s)) ->
  s = x /\ is_canonical sel tys (ab_data (body s)).
Proof. exact call_data_canonical. Qed.

(* why the re-packing matters: a ValidateSendBlock that returns before it for some input lets every decodable
   non-canonical encoding of that input through, stored as delivered *)
Theorem C13_skipped_repack_refuted : forall H sel tys static_ok (x : AB) d',
  hash_ok H x = true ->
  repack sel tys (ab_data (body x)) = Some d' -> d' <> ab_data (body x) ->
  static_ok (ab_data (body x)) = true ->
  accept_call_gen H sel tys static_ok (fun _ => true) x = Some x /\ ~ is_canonical sel tys (ab_data (body x)).
Proof. exact skipped_repack_refuted. Qed.

(* the padding of dynamic values is part of canonicity: canonical call data are selector, head words and then the
   tails in argument order, and the tail of every string / bytes argument is its length word, its content and ZEROS
   up to the next word boundary (the decoder never reads those bytes; only the re-pack pins them) *)
Theorem C13_canonical_dyn_padding_zero : forall sel tys input,
  tys <> [] -> is_canonical sel tys input ->
  exists vs items heads,
    unpack_method sel tys input = UOk vs /\ pack_items tys vs = Some items /\
    input = sel ++ heads ++ tails_of items /\
    forall i t v it, nth_error tys i = Some t -> nth_error vs i = Some v -> nth_error items i = Some it -> padded_item t v it.
Proof. exact canonical_dyn_padding_zero. Qed.

(* ... and so it holds for the stored call data of every accepted call *)
Theorem C13_accepted_call_padding_zero : forall (H : bytes -> bytes), (forall x, length (H x) = 32%nat) ->
  forall sel tys static_ok (x s : AB),
  tys <> [] -> ab_wf x ->
  accept_call H sel tys static_ok x = Some s ->
  (H (ab_preimage H x) = H (ab_preimage H s) -> ab_preimage H x = ab_preimage H s) ->
  (H (ab_data (body x)) = H (ab_data (body s)) -> ab_data (body x) = ab_data (body s)) ->
  exists vs items heads,
    unpack_method sel tys (ab_data (body s)) = UOk vs /\ pack_items tys vs = Some items /\
    ab_data (body s) = sel ++ heads ++ tails_of items /\
    forall i t v it, nth_error tys i = Some t -> nth_error vs i = Some v -> nth_error items i = Some it -> padded_item t v it.
Proof. exact accepted_call_padding_zero. Qed.

(* the call shape of htlc.Unlock(hash id, bytes preimage), every byte written out *)
Theorem C13_canonical_unlock_shape : forall sel input,
  is_canonical sel [THash; TBytes] input ->
  exists id pre, input = sel ++ lpad32 id ++ word256 64 ++ word256 (len pre) ++ pre ++ repeat 0 (Z.to_nat (pad_len pre)).
Proof. exact canonical_unlock_shape. Qed.

(* the number of padding bytes: fewer than a word, and content + padding ends on a word boundary *)
Theorem C13_pad_len : forall c, 0 <= pad_len c < 32 /\ (len c + pad_len c) mod 32 = 0.
Proof. intros c. split; [apply pad_len_range | apply pad_len_fills]. Qed.

(* ---- non-vacuity *)
Example C13_shape_example : pb_ok ex_block.
Proof. exact ex_block_ok. Qed.
Example C13_roundtrip_example : deserialize_ab (serialize_ab ex_block) = DOk ex_block.
Proof. vm_compute. reflexivity. Qed.
(* an accepted user block exists for some instantiation of the oracles *)
Definition ex_H (_ : bytes) : bytes := repeat 7 32.
Definition ex_user : AB :=
  ABNode (mkABody 1 3 2 (repeat 7 32) (repeat 0 32) 2 (repeat 1 32) 9 (0 :: repeat 2 19) (repeat 3 20) 100 (repeat 4 10)
                  (repeat 0 32) [1; 2; 3] 21000 0 (repeat 0 8) 0 0 (repeat 8 32) (repeat 5 32) (repeat 6 64)) [].
Example C13_accept_example :
  accept_user ex_H (fun _ _ _ => true) (fun _ => 0 :: repeat 2 19) (fun _ => Some (21000, 21204)) (fun _ => true) ex_user
  = Some (ABNode (set_plasma (body ex_user) 21204 21000) []).
Proof. vm_compute. reflexivity. Qed.
(* an accepted call exists, and a decodable non-canonical encoding of the same arguments is refused:
   SetTokenTuple-shaped arguments (four empty lists), all four offsets pointing at one shared zero word *)
Definition ex_Hsum (b : bytes) : bytes := repeat (1 + fold_right Z.add 0 b) 32.
Definition ex_sel : bytes := [1; 2; 3; 4].
Definition ex_call_h (h d : bytes) : AB :=
  ABNode (mkABody 1 3 2 h (repeat 0 32) 2 (repeat 1 32) 9 (0 :: repeat 2 19) (repeat 3 20) 0 (repeat 4 10)
                  (repeat 0 32) (ex_sel ++ d) 21000 0 (repeat 0 8) 0 0 (repeat 8 32) (repeat 5 32) (repeat 6 64)) [].
(* the block with these call data, correctly hashed (the hash here is a toy function of the input) *)
Definition ex_call (d : bytes) : AB := ex_call_h (ex_Hsum (ab_preimage ex_Hsum (ex_call_h [] d))) d.
Definition ex_canon : bytes :=
  word256 128 ++ word256 160 ++ word256 192 ++ word256 224 ++ word256 0 ++ word256 0 ++ word256 0 ++ word256 0.
Example C13_call_example :
  accept_call ex_Hsum ex_sel ex_tys (fun _ => true) (ex_call ex_canon) = Some (ex_call ex_canon) /\
  hash_ok ex_Hsum (ex_call ex_shared) = true /\
  repack ex_sel ex_tys (ex_sel ++ ex_shared) = Some (ex_sel ++ ex_canon) /\
  accept_call ex_Hsum ex_sel ex_tys (fun _ => true) (ex_call ex_shared) = None /\
  accept_call_gen ex_Hsum ex_sel ex_tys (fun _ => true) (fun _ => true) (ex_call ex_shared) = Some (ex_call ex_shared).
Proof. vm_compute. repeat split; reflexivity. Qed.
(* htlc.Unlock-shaped call (hash, bytes) with a 3-byte preimage: the encoding whose 29 padding bytes are not zero
   decodes to the same values, is not canonical, is refused by the acceptance with the re-pack and accepted (stored
   as delivered) by an acceptance whose re-pack reproduces the delivered bytes - which is what a packer does that
   takes the padding from the memory behind the decoded value (dyn_tail_with): same length, other bytes *)
Definition ex_utys : list ty := [THash; TBytes].
Definition ex_uhead : bytes := repeat 5 32 ++ word256 64 ++ word256 3 ++ [9; 8; 7].
Definition ex_ucanon : bytes := ex_uhead ++ repeat 0 29.
Definition ex_udirty : bytes := ex_uhead ++ 1 :: repeat 0 27 ++ [255].
Example C13_padding_example :
  unpack_values ex_utys ex_udirty = unpack_values ex_utys ex_ucanon /\
  repack ex_sel ex_utys (ex_sel ++ ex_udirty) = Some (ex_sel ++ ex_ucanon) /\
  accept_call ex_Hsum ex_sel ex_utys (fun _ => true) (ex_call ex_ucanon) = Some (ex_call ex_ucanon) /\
  hash_ok ex_Hsum (ex_call ex_udirty) = true /\
  accept_call ex_Hsum ex_sel ex_utys (fun _ => true) (ex_call ex_udirty) = None /\
  accept_call_gen ex_Hsum ex_sel ex_utys (fun _ => true) (fun _ => true) (ex_call ex_udirty) = Some (ex_call ex_udirty) /\
  word256 64 ++ dyn_tail [9; 8; 7] = skipn 32 ex_ucanon /\
  word256 64 ++ dyn_tail_with (fun _ => 1 :: repeat 0 27 ++ [255]) [9; 8; 7] = skipn 32 ex_udirty /\
  length (dyn_tail_with (fun _ => 1 :: repeat 0 27 ++ [255]) [9; 8; 7]) = length (dyn_tail [9; 8; 7]).
Proof. vm_compute. repeat split; reflexivity. Qed.
(* a forged descendant (7777 instead of 50, Hash field kept) passes the pre-fix acceptance and is refused by the
   fixed one, while the regenerated block itself is accepted *)
Definition mk_desc (amount : Z) (h : bytes) : AB :=
  ABNode (mkABody 1 3 4 h (repeat 0 32) 2 (repeat 1 32) 9 (1 :: repeat 2 19) (repeat 3 20) amount (repeat 4 10)
                  (repeat 0 32) [] 0 0 (repeat 0 8) 0 0 (repeat 0 32) [] []) [].
Definition d50 : AB := mk_desc 50 (ex_Hsum (ab_preimage ex_Hsum (mk_desc 50 []))).
Definition d7777 : AB := mk_desc 7777 (ab_hash (body d50)).
Definition mk_cr (h : bytes) (ds : list AB) : AB :=
  ABNode (mkABody 1 3 5 h (repeat 0 32) 3 (repeat 1 32) 9 (1 :: repeat 2 19) (repeat 0 20) 0 (repeat 0 10)
                  (repeat 9 32) [0; 0; 0; 0; 0; 0; 0; 1] 0 0 (repeat 0 8) 0 0 (repeat 8 32) [] []) ds.
Definition ex_gen : AB := mk_cr (ex_Hsum (ab_preimage ex_Hsum (mk_cr [] [d50]))) [d50].
Definition ex_forged : AB := mk_cr (ab_hash (body ex_gen)) [d7777].
Example C13_forgery_example :
  (accept_cr_nofix ex_Hsum (fun _ => true) (Some ex_gen) ex_forged = Some ex_forged) /\
  (accept_cr ex_Hsum (fun _ => true) (Some ex_gen) ex_forged = None) /\
  (accept_cr ex_Hsum (fun _ => true) (Some ex_gen) ex_gen = Some ex_gen) /\
  (map (fun d => cv_amount (ab_covered d)) (desc ex_forged) <> map (fun d => cv_amount (ab_covered d)) (desc ex_gen)).
Proof. vm_compute. repeat split; try reflexivity. discriminate. Qed.
