(* C13 — A block's hash pins down its stored bytes and its effect. Statements only. *)
From ZV Require Import Prelude Block CodecPb Dec BlockAccept.
Open Scope Z_scope.
