(* C14 — Unconfirmed pool: one consistent chain per account (the concurrency clause is a runtime statement and is
   explored by the harness under the race detector, not proved).
   Only statements; each is closed by a lemma proved in theories/PoolProofs.v. *)
From ZV Require Import Prelude GoSem Pool PoolProofs.
From ZV.gen Require Import Consts.
Open Scope Z_scope.

(* every sequence of insertions, replacements, forced insertions, momentum inserts and deletes keeps, per account,
   a single hash-linked chain: confirmed blocks, then the pooled blocks on top of the last confirmed one *)
Theorem C14_single_chain : forall ops a,
  wf a -> Forall wf_op ops -> Z.of_nat (length (rchain a) + length ops) < two63 -> wf (run a ops).
Proof. exact run_wf. Qed.

(* no operation reaches higherPriority(block, nil) or fails to pop: the decision procedure is total; the only failure is
   the rebuild after a momentum that confirmed a PART of a contract's batch (the account's pool is then dropped) *)
Theorem C14_step_total : forall a o, wf a -> wf_op o -> Z.of_nat (length (rchain a)) < two63 ->
  wf (fst (step a o)) /\ (length (rchain (fst (step a o))) <= S (length (rchain a)))%nat /\
  snd (step a o) <> RPanic /\ (snd (step a o) = RErrPop -> exists k, o = OMomentum k /\ ~ aligned a k).
Proof. exact step_wf. Qed.

(* a confirmed block is never displaced by a pool operation; only a momentum extends and only a momentum delete shortens it *)
Theorem C14_confirmed_never_displaced : forall a o, wf a -> wf_op o -> Z.of_nat (length (rchain a)) < two63 ->
  match o with
  | OAdd _ _ => confirmed (fst (step a o)) = confirmed a
  | OMomentum _ => exists newly, confirmed (fst (step a o)) = newly ++ confirmed a
  | ODelete _ => exists dropped, confirmed a = dropped ++ confirmed (fst (step a o))
  end.
Proof. exact confirmed_never_displaced. Qed.

(* an accepted block becomes the frontier; a rejected one changes nothing *)
Theorem C14_add_effect : forall force a b a' r, wf a -> in_u64 (bheight b) -> Z.of_nat (length (rchain a)) < two63 ->
  add force a b = (a', r) ->
  wf a' /\ sh a' = sh a /\ confirmed a' = confirmed a /\ r <> RPanic /\ r <> RErrPop /\
  (length (rchain a') <= S (length (rchain a)))%nat /\
  (r = ROk -> frontier_id (rchain a') = id_of b) /\ (r <> ROk -> a' = a).
Proof. exact add_spec. Qed.

(* the rule between two candidates for a height is antisymmetric ... *)
Theorem C14_priority_antisym : forall a b, ~ (wins a b /\ wins b a).
Proof. exact priority_antisym. Qed.
(* ... decides every pair with distinct hashes ... *)
Theorem C14_priority_total : forall a b, bhash a <> bhash b -> wins a b \/ wins b a.
Proof. exact priority_total. Qed.
(* ... and, under the per-block plasma cap, the uint64 products do not wrap: higher plasma ratio, then smaller hash *)
Theorem C14_priority_no_overflow : forall a b,
  0 <= btotal a <= MaxPlasmaForAccountBlock -> 0 <= bbase a <= MaxPlasmaForAccountBlock ->
  0 <= btotal b <= MaxPlasmaForAccountBlock -> 0 <= bbase b <= MaxPlasmaForAccountBlock ->
  (wins a b <-> btotal b * bbase a < btotal a * bbase b \/ (btotal a * bbase b = btotal b * bbase a /\ bhash a < bhash b)).
Proof. exact priority_no_overflow. Qed.

(* after a momentum that confirms the next k pooled blocks (whole batches of a pooled chain of whole batches) the
   rebuild succeeds and the pool holds exactly the previously pooled blocks that were not confirmed by it; the rebuild
   re-adds a contract's batch as ONE transaction (its ContractSend descendants with their ContractReceive) *)
Theorem C14_rebuild_exact : forall a k, wf a -> (sh a + k <= length (rchain a))%nat -> aligned a k ->
  step a (OMomentum k) = (mkAcct (rchain a) (sh a + k), ROk) /\
  pooled (mkAcct (rchain a) (sh a + k)) = firstn (length (pooled a) - k) (pooled a) /\
  confirmed (mkAcct (rchain a) (sh a + k)) = skipn (length (pooled a) - k) (pooled a) ++ confirmed a.
Proof. exact rebuild_exact. Qed.

(* non-vacuity, and the record of the defect fixed in /repo 84ffe66: a contract with one confirmed block and one pooled
   batch (send 22, receive 33) sees a momentum that confirms nothing of it. The rebuild keeps the batch; the rebuild that
   re-added every block as a transaction of its own (the code before the fix) fails on the receive, whose transaction
   starts at the send below it, and the batch is lost *)
Example C14_rebuild_keeps_unconfirmed_batch :
  let g1 := mkBlock 11 0 1 0 0 false in
  let s2 := mkBlock 22 11 2 0 0 true in
  let r3 := mkBlock 33 22 3 0 0 false in
  let a := mkAcct [r3; s2; g1] 1 in
  wf a /\ aligned a 0 /\ step a (OMomentum 0) = (a, ROk).
Proof. cbv zeta. split; [|split]; [unfold wf; cbn; repeat split; lia|split; reflexivity|vm_compute; reflexivity]. Qed.
Theorem C14_rebuild_per_block_refuted : exists a, wf a /\ aligned a 0 /\
  rebuild (confirmed a) a = Some a /\ rebuild_per_block (confirmed a) a = None.
Proof.
  exists (mkAcct [mkBlock 33 22 3 0 0 false; mkBlock 22 11 2 0 0 true; mkBlock 11 0 1 0 0 false] 1).
  split; [|split]; [unfold wf; cbn; repeat split; lia|split; reflexivity|split; vm_compute; reflexivity].
Qed.

(* the winner of a competition for an unconfirmed height - any height 1..k of the pooled chain -, a forced block and a
   fast-forward insert all sit on the untouched chain below their height: exactly the blocks from that height up are
   dropped, all of them unconfirmed (the pool can go back to every earlier unconfirmed version) *)
Theorem C14_replacement_is_exactly_the_suffix : forall force a b a', wf a -> in_u64 (bheight b) -> Z.of_nat (length (rchain a)) < two63 ->
  add force a b = (a', ROk) ->
  exists dropped below, rchain a = dropped ++ below /\ rchain a' = b :: below /\ frontier_id below = prev_of b /\
    (length dropped <= length (rchain a) - sh a)%nat /\ Forall (fun x => bheight b <= bheight x) dropped.
Proof. exact add_replaces_suffix. Qed.
Example C14_replace_above_first_unconfirmed :
  let g1 := mkBlock 11 0 1 0 0 false in
  let b2 := mkBlock 22 11 2 21000 21000 false in
  let b3 := mkBlock 33 22 3 21000 21000 false in
  let b4 := mkBlock 44 33 4 21000 21000 false in
  let c3 := mkBlock 99 22 3 42000 21000 false in
  add false (mkAcct [b4; b3; b2; g1] 1) c3 = (mkAcct [c3; b2; g1] 1, ROk).
Proof. vm_compute. reflexivity. Qed.

(* competing producers: the chain also sends an insert notification for a momentum the store did not apply (own momentum
   inserted after a competing one for the same height). Measured against the store nothing got confirmed: the rebuild
   cannot fail and leaves account, confirmed blocks and pool exactly as they were; any number of such notifications
   anywhere in a history leaves no trace *)
Theorem C14_unapplied_momentum_leaves_pool : forall a, wf a -> aligned a 0 -> step a (OMomentum 0) = (a, ROk).
Proof. exact unapplied_momentum_identity. Qed.

Theorem C14_unapplied_momentums_no_trace : forall a n ops, wf a -> aligned a 0 ->
  run a (repeat (OMomentum 0) n ++ ops) = run a ops.
Proof. exact unapplied_momentums_no_trace. Qed.

(* momentum content: a prefix of the candidates, cut only at a batch boundary, at most MaxAccountBlocksInMomentum
   blocks, and maximal (the next complete batch would not fit) *)
Theorem C14_filter_batches : forall blocks,
  let r := filter_to_commit blocks in
  (exists rest, blocks = r ++ rest /\
     (forall pre x post, rest = pre ++ x :: post -> Forall (fun b => bsend b = true) pre -> bsend x = false ->
        MaxAccountBlocksInMomentum < Z.of_nat (length r) + Z.of_nat (length pre) + 1)) /\
  Z.of_nat (length r) <= MaxAccountBlocksInMomentum /\ ends_batch r.
Proof. exact filter_batches. Qed.

(* ... and for the content as accountPool.GetNewMomentumContent composes it - ONE walk of filterBlocksToCommit over the
   concatenation of the accounts' pooled chains, whatever order the map yields the accounts in: the complete chains of
   some accounts and a prefix of one more account's chain that ends where a batch ends; no batch of any account is split *)
Theorem C14_content_never_splits_a_batch_of_any_account : forall chains,
  exists j p rest, new_momentum_content chains = concat (firstn j chains) ++ p /\ nth j chains [] = p ++ rest /\ ends_batch p /\
    Z.of_nat (length (new_momentum_content chains)) <= MaxAccountBlocksInMomentum.
Proof. exact content_per_account. Qed.
(* two contracts with 61 pooled blocks each, batches of (send, receive): 100 blocks = 50 whole batches are offered, the cut
   falls between batch 19 and batch 20 of the second contract *)
Example C14_content_two_queues :
  let q := concat (repeat [mkBlock 0 0 0 0 0 true; mkBlock 0 0 0 0 0 false] 30) ++ [mkBlock 0 0 0 0 0 false] in
  length (new_momentum_content [q; q]) = 99%nat.
Proof. vm_compute. reflexivity. Qed.

(* non-vacuity: a better-paying competitor replaces the pooled block and what was built on it *)
Example C14_replace_example :
  let g1 := mkBlock 11 0 1 0 0 false in
  let b2 := mkBlock 22 11 2 21000 21000 false in
  let b3 := mkBlock 33 22 3 21000 21000 false in
  let c2 := mkBlock 99 11 2 42000 21000 false in
  let a := mkAcct [b3; b2; g1] 1 in
  wf a /\ add false a c2 = (mkAcct [c2; g1] 1, ROk) /\ snd (add false (mkAcct [c2; g1] 1) b2) = RErrRatio.
Proof. cbv zeta. split; [|split; vm_compute; reflexivity]. unfold wf. cbn. repeat split; lia. Qed.

(* the rule the theorems above are about is the code: [higher_priority] equals chain.higherPriority as translated from
   chain/account_pool.go by go2coq on every run (uint64 products with wrap; bytes.Compare of the hashes as its result) *)
Theorem C14_priority_rule_is_the_source : forall a b,
  higher_priority a b =
  priority_code (ZV.gen.Pure.higherPriority (btotal a) (bbase b) (btotal b) (bbase a) (bytes_compare (bhash a) (bhash b))).
Proof. exact higher_priority_is_source. Qed.
