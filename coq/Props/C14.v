(* C14 — Unconfirmed pool: one consistent chain per account (the concurrency clause is a runtime statement and is
   explored by the harness under the race detector, not proved).
   Only statements; each is closed by a lemma proved in theories/PoolProofs.v. *)
From ZV Require Import Prelude GoSem Pool PoolProofs PoolOrderProofs.
From Coq Require Import Permutation.
From ZV.gen Require Import Consts.
Open Scope Z_scope.

(* every sequence of insertions, replacements, forced insertions, momentum inserts and deletes keeps, per account,
   a single hash-linked chain: confirmed blocks, then the pooled blocks on top of the last confirmed one *)
Theorem C14_single_chain : forall ops a,
  wf a -> Forall wf_op ops -> Z.of_nat (length (rchain a) + ops_size ops) < two63 -> wf (run a ops).
Proof. exact run_wf. Qed.

(* no operation reaches higherPriority(block, nil): the decision procedure is total. The only failures: the rebuild after
   a momentum that confirmed a PART of a contract's batch, and the pop loop for a candidate whose parent is a contract
   send INSIDE a pooled batch (no version of the account ends there; the supervisor never lets such a block through): in
   both cases the account's pool is dropped, what is left is still a chain *)
Theorem C14_step_total : forall a o, wf a -> wf_op o -> Z.of_nat (length (rchain a)) < two63 ->
  wf (fst (step a o)) /\ (length (rchain (fst (step a o))) <= op_size o + length (rchain a))%nat /\
  snd (step a o) <> RPanic /\
  (snd (step a o) = RErrPop -> (exists k, o = OMomentum k /\ ~ aligned a k) \/
     (exists force descs b p, step a o = add_tx force a descs b /\ by_height (rchain a) (u64 (bheight b - 1)) = Some p /\
                              bsend p = true /\ Z.of_nat (sh a) < bheight p)).
Proof. exact step_wf. Qed.

(* a confirmed block is never displaced by a pool operation; only a momentum extends and only a momentum delete shortens it *)
Theorem C14_confirmed_never_displaced : forall a o, wf a -> wf_op o -> Z.of_nat (length (rchain a)) < two63 ->
  match o with
  | OAdd _ _ | OAddTx _ _ _ => confirmed (fst (step a o)) = confirmed a
  | OMomentum _ | OConfirm _ => exists newly, confirmed (fst (step a o)) = newly ++ confirmed a
  | ODelete _ => exists dropped, confirmed a = dropped ++ confirmed (fst (step a o))
  end.
Proof. exact confirmed_never_displaced. Qed.

(* an accepted block becomes the frontier; a rejected one changes nothing - unless its parent is a contract send inside a
   pooled batch (RErrPop: the pool of the account is dropped) *)
Theorem C14_add_effect : forall force a b a' r, wf a -> in_u64 (bheight b) -> Z.of_nat (length (rchain a)) < two63 ->
  add force a b = (a', r) ->
  wf a' /\ sh a' = sh a /\ confirmed a' = confirmed a /\ r <> RPanic /\
  (length (rchain a') <= S (length (rchain a)))%nat /\
  (r = ROk -> frontier_id (rchain a') = id_of b) /\ (r <> ROk -> r <> RErrPop -> a' = a) /\
  (r = RErrPop -> rchain a' = confirmed a /\
     exists p, by_height (rchain a) (u64 (bheight b - 1)) = Some p /\ id_of p = prev_of b /\ bsend p = true /\ Z.of_nat (sh a) < bheight p).
Proof. exact add_spec. Qed.
(* ... which cannot happen on an account without contract sends (every user account): a rejected block changes nothing *)
Theorem C14_add_effect_without_batches : forall force a b a' r, wf a -> in_u64 (bheight b) -> Z.of_nat (length (rchain a)) < two63 ->
  no_sends a -> add force a b = (a', r) -> r <> RErrPop /\ (r <> ROk -> a' = a).
Proof. exact add_no_sends. Qed.
(* the record of the observation: pooled batch (send 33, receive 44) on the pooled receive 22; a candidate for height 4
   whose parent is the send 33 passes canRollback, the loop pops the batch, then 22, and fails at the stable version *)
Theorem C14_reject_changes_nothing_refuted : exists force a b, wf a /\ in_u64 (bheight b) /\
  snd (add force a b) = RErrPop /\ pooled a <> [] /\ pooled (fst (add force a b)) = [].
Proof.
  exists false, (mkAcct [mkBlock 44 33 4 0 0 false; mkBlock 33 22 3 0 0 true; mkBlock 22 11 2 0 0 false; mkBlock 11 0 1 0 0 false] 1),
         (mkBlock 5 33 4 0 0 false).
  split; [unfold wf; cbn; repeat split; lia|]. split; [unfold in_u64, two64; cbn; lia|].
  split; [vm_compute; reflexivity|split; [discriminate|vm_compute; reflexivity]].
Qed.

(* the FIRST block of an account is a height like any other: a competitor for height 1 names the empty account-chain
   (previous = zero hash-height); when nothing of the account is confirmed and it is forced or wins against the pooled
   first block, it replaces the whole pooled chain (chain/account_pool.go canRollback after fix 417e0a5) *)
Theorem C14_first_block_can_be_replaced : forall force a b t, wf a -> sh a = 0%nat -> bheight b = 1 -> bprev b = 0 ->
  by_height (rchain a) 1 = Some t -> bhash t <> bhash b -> (force = true \/ wins b t) ->
  add force a b = (mkAcct [b] 0, ROk).
Proof. exact first_block_replaced. Qed.
(* the code before the fix looked up the block at height 0 and refused every such competitor, also a forced one (a
   momentum from sync that confirms another version of an account's first block than the pooled one was refused) *)
Theorem C14_first_block_competitor_refused_refuted : exists a b, wf a /\ in_u64 (bheight b) /\ pooled a <> [] /\
  add_tx_with prev_check_old true a [] b = (a, RErrNoPrev) /\ add true a b = (mkAcct [b] 0, ROk).
Proof.
  exists (mkAcct [mkBlock 22 11 2 0 0 false; mkBlock 11 0 1 0 0 false] 0), (mkBlock 5 0 1 0 0 false).
  split; [unfold wf; cbn; repeat split; lia|]. split; [unfold in_u64, two64; cbn; lia|].
  split; [discriminate|split; vm_compute; reflexivity].
Qed.

(* TRANSACTIONS that span several heights (a contract receive with its descendant sends is one transaction of the version
   manager, one Pop removes all of it): an accepted transaction - fast-forward, winner at any unconfirmed height, forced -
   becomes the top of the chain on the untouched blocks below its first height; exactly the unconfirmed blocks from that
   height up are dropped, whole transactions of them; a transaction WITH descendants is only ever installed by
   fast-forward (canRollback compares the block at the receive's height - 1 with the parent of the whole batch) *)
Theorem C14_transaction_replacement_is_exactly_the_suffix : forall force a descs b a', wf a -> wf_tx descs b -> Z.of_nat (length (rchain a)) < two63 ->
  add_tx force a descs b = (a', ROk) ->
  exists dropped below, rchain a = dropped ++ below /\ rchain a' = b :: rev descs ++ below /\
    frontier_id below = prev_of (tx_first descs b) /\ (length dropped <= length (rchain a) - sh a)%nat /\
    Forall (fun x => bheight (tx_first descs b) <= bheight x) dropped /\ (descs <> [] -> dropped = []).
Proof. exact add_tx_replaces_suffix. Qed.
(* the candidate of seed C14_10's demonstration: confirmed S(1); pooled receive R0(2) and the batch [send D(3), receive
   R1(4)]; X(3) on R0 with a smaller hash than D replaces the whole batch and nothing else *)
Example C14_replace_below_batch :
  let s1 := mkBlock 50 0 1 0 0 false in
  let r0 := mkBlock 60 50 2 0 0 false in
  let d := mkBlock 70 60 3 0 0 true in
  let r1 := mkBlock 80 70 4 0 0 false in
  let x := mkBlock 10 60 3 0 0 false in
  add false (mkAcct [r1; d; r0; s1] 1) x = (mkAcct [x; r0; s1] 1, ROk) /\
  add_tx true (mkAcct [r0; s1] 1) [d] r1 = (mkAcct [r1; d; r0; s1] 1, ROk).
Proof. split; vm_compute; reflexivity. Qed.

(* THE PILLAR RACE: the pillar's own momentum is inserted after the pool has replaced blocks it was generated with. It
   confirms `newly` (which continue the confirmed chain) whatever the pool holds at these heights. Afterwards the pool
   holds only previously pooled blocks above the new confirmed height, on top of the new confirmed chain (one linked
   chain), and NOTHING when the previously pooled block right above the new frontier is not its child *)
Theorem C14_own_momentum_after_displacement : forall a newly, wf a -> links_on (frontier_id (confirmed a)) newly = true ->
  let a' := fst (step a (OConfirm newly)) in
  let ns := rev newly ++ confirmed a in
  wf a' /\ snd (step a (OConfirm newly)) = ROk /\ sh a' = length ns /\
  (exists top, rchain a' = top ++ ns /\ (length top <= length (rchain a) - sh a)%nat /\
     forall x, In x top -> In x (pooled a) /\ Z.of_nat (length ns) < bheight x) /\
  (forall x0, by_height (rchain a) (Z.of_nat (length ns) + 1) = Some x0 -> prev_of x0 <> frontier_id ns -> rchain a' = ns).
Proof. exact confirm_spec. Qed.
(* B1 (22) was in the generated momentum; the pool replaced it by B2 (99) and got B3 (33) on top; the momentum confirms
   B1: B3 does not link any more, the pool is empty. And when the pool still holds B1 and a child, the child stays *)
Example C14_displaced_block_confirmed :
  let g1 := mkBlock 11 0 1 0 0 false in
  let b1 := mkBlock 22 11 2 21000 21000 false in
  let b2 := mkBlock 99 11 2 42000 21000 false in
  let b3 := mkBlock 33 99 3 21000 21000 false in
  let c3 := mkBlock 44 22 3 21000 21000 false in
  step (mkAcct [b3; b2; g1] 1) (OConfirm [b1]) = (mkAcct [b1; g1] 2, ROk) /\
  step (mkAcct [c3; b1; g1] 1) (OConfirm [b1]) = (mkAcct [c3; b1; g1] 2, ROk).
Proof. split; vm_compute; reflexivity. Qed.

(* the rule between two candidates for a height is antisymmetric ... *)
Theorem C14_priority_antisym : forall a b, ~ (wins a b /\ wins b a).
Proof. exact priority_antisym. Qed.
(* ... decides every pair with distinct hashes ... *)
Theorem C14_priority_total : forall a b, bhash a <> bhash b -> wins a b \/ wins b a.
Proof. exact priority_total. Qed.
(* ... and, under the per-block plasma cap, the uint64 products do not wrap: higher plasma ratio, then smaller hash *)
Theorem C14_priority_no_overflow : forall a b,
  0 <= btotal a <= MaxPlasmaForAccountBlock -> 0 <= bbase a <= MaxPlasmaForAccountBlock ->
  0 <= btotal b <= MaxPlasmaForAccountBlock -> 0 <= bbase b <= MaxPlasmaForAccountBlock ->
  (wins a b <-> btotal b * bbase a < btotal a * bbase b \/ (btotal a * bbase b = btotal b * bbase a /\ bhash a < bhash b)).
Proof. exact priority_no_overflow. Qed.

(* after a momentum that confirms the next k pooled blocks (whole batches of a pooled chain of whole batches) the
   rebuild succeeds and the pool holds exactly the previously pooled blocks that were not confirmed by it; the rebuild
   re-adds a contract's batch as ONE transaction (its ContractSend descendants with their ContractReceive) *)
Theorem C14_rebuild_exact : forall a k, wf a -> (sh a + k <= length (rchain a))%nat -> aligned a k ->
  step a (OMomentum k) = (mkAcct (rchain a) (sh a + k), ROk) /\
  pooled (mkAcct (rchain a) (sh a + k)) = firstn (length (pooled a) - k) (pooled a) /\
  confirmed (mkAcct (rchain a) (sh a + k)) = skipn (length (pooled a) - k) (pooled a) ++ confirmed a.
Proof. exact rebuild_exact. Qed.

(* non-vacuity, and the record of the defect fixed in /repo 84ffe66: a contract with one confirmed block and one pooled
   batch (send 22, receive 33) sees a momentum that confirms nothing of it. The rebuild keeps the batch; the rebuild that
   re-added every block as a transaction of its own (the code before the fix) fails on the receive, whose transaction
   starts at the send below it, and the batch is lost *)
Example C14_rebuild_keeps_unconfirmed_batch :
  let g1 := mkBlock 11 0 1 0 0 false in
  let s2 := mkBlock 22 11 2 0 0 true in
  let r3 := mkBlock 33 22 3 0 0 false in
  let a := mkAcct [r3; s2; g1] 1 in
  wf a /\ aligned a 0 /\ step a (OMomentum 0) = (a, ROk).
Proof. cbv zeta. split; [|split]; [unfold wf; cbn; repeat split; lia|split; reflexivity|vm_compute; reflexivity]. Qed.
Theorem C14_rebuild_per_block_refuted : exists a, wf a /\ aligned a 0 /\
  rebuild (confirmed a) a = Some a /\ rebuild_per_block (confirmed a) a = None.
Proof.
  exists (mkAcct [mkBlock 33 22 3 0 0 false; mkBlock 22 11 2 0 0 true; mkBlock 11 0 1 0 0 false] 1).
  split; [|split]; [unfold wf; cbn; repeat split; lia|split; reflexivity|split; vm_compute; reflexivity].
Qed.

(* the winner of a competition for an unconfirmed height - any height 1..k of the pooled chain -, a forced block and a
   fast-forward insert all sit on the untouched chain below their height: exactly the blocks from that height up are
   dropped, all of them unconfirmed (the pool can go back to every earlier unconfirmed version) *)
Theorem C14_replacement_is_exactly_the_suffix : forall force a b a', wf a -> in_u64 (bheight b) -> Z.of_nat (length (rchain a)) < two63 ->
  add force a b = (a', ROk) ->
  exists dropped below, rchain a = dropped ++ below /\ rchain a' = b :: below /\ frontier_id below = prev_of b /\
    (length dropped <= length (rchain a) - sh a)%nat /\ Forall (fun x => bheight b <= bheight x) dropped.
Proof. exact add_replaces_suffix. Qed.
Example C14_replace_above_first_unconfirmed :
  let g1 := mkBlock 11 0 1 0 0 false in
  let b2 := mkBlock 22 11 2 21000 21000 false in
  let b3 := mkBlock 33 22 3 21000 21000 false in
  let b4 := mkBlock 44 33 4 21000 21000 false in
  let c3 := mkBlock 99 22 3 42000 21000 false in
  add false (mkAcct [b4; b3; b2; g1] 1) c3 = (mkAcct [c3; b2; g1] 1, ROk).
Proof. vm_compute. reflexivity. Qed.

(* competing producers: the chain also sends an insert notification for a momentum the store did not apply (own momentum
   inserted after a competing one for the same height). Measured against the store nothing got confirmed: the rebuild
   cannot fail and leaves account, confirmed blocks and pool exactly as they were; any number of such notifications
   anywhere in a history leaves no trace *)
Theorem C14_unapplied_momentum_leaves_pool : forall a, wf a -> aligned a 0 -> step a (OMomentum 0) = (a, ROk).
Proof. exact unapplied_momentum_identity. Qed.

Theorem C14_unapplied_momentums_no_trace : forall a n ops, wf a -> aligned a 0 ->
  run a (repeat (OMomentum 0) n ++ ops) = run a ops.
Proof. exact unapplied_momentums_no_trace. Qed.

(* momentum content: a prefix of the candidates, cut only at a batch boundary, at most MaxAccountBlocksInMomentum
   blocks, and maximal (the next complete batch would not fit) *)
Theorem C14_filter_batches : forall blocks,
  let r := filter_to_commit blocks in
  (exists rest, blocks = r ++ rest /\
     (forall pre x post, rest = pre ++ x :: post -> Forall (fun b => bsend b = true) pre -> bsend x = false ->
        MaxAccountBlocksInMomentum < Z.of_nat (length r) + Z.of_nat (length pre) + 1)) /\
  Z.of_nat (length r) <= MaxAccountBlocksInMomentum /\ ends_batch r.
Proof. exact filter_batches. Qed.

(* ... and for the content as accountPool.GetNewMomentumContent composes it - ONE walk of filterBlocksToCommit over the
   concatenation of the accounts' pooled chains, whatever order the map yields the accounts in: the complete chains of
   some accounts and a prefix of one more account's chain that ends where a batch ends; no batch of any account is split *)
Theorem C14_content_never_splits_a_batch_of_any_account : forall chains,
  exists j p rest, new_momentum_content chains = concat (firstn j chains) ++ p /\ nth j chains [] = p ++ rest /\ ends_batch p /\
    Z.of_nat (length (new_momentum_content chains)) <= MaxAccountBlocksInMomentum.
Proof. exact content_per_account. Qed.
(* two contracts with 61 pooled blocks each, batches of (send, receive): 100 blocks = 50 whole batches are offered, the cut
   falls between batch 19 and batch 20 of the second contract *)
Example C14_content_two_queues :
  let q := concat (repeat [mkBlock 0 0 0 0 0 true; mkBlock 0 0 0 0 0 false] 30) ++ [mkBlock 0 0 0 0 0 false] in
  length (new_momentum_content [q; q]) = 99%nat.
Proof. vm_compute. reflexivity. Qed.

(* non-vacuity: a better-paying competitor replaces the pooled block and what was built on it *)
Example C14_replace_example :
  let g1 := mkBlock 11 0 1 0 0 false in
  let b2 := mkBlock 22 11 2 21000 21000 false in
  let b3 := mkBlock 33 22 3 21000 21000 false in
  let c2 := mkBlock 99 11 2 42000 21000 false in
  let a := mkAcct [b3; b2; g1] 1 in
  wf a /\ add false a c2 = (mkAcct [c2; g1] 1, ROk) /\ snd (add false (mkAcct [c2; g1] 1) b2) = RErrRatio.
Proof. cbv zeta. split; [|split; vm_compute; reflexivity]. unfold wf. cbn. repeat split; lia. Qed.

(* "the same rule ON EVERY NODE": competitors for one height of a user account (base plasma positive, under the cap),
   all on the same parent, reach a node one after the other without force - by the pool call, rpc publish or gossip,
   every entry ends in addAccountBlockTransaction(forceAdd = false). Two nodes (or one node, replayed) that hold the same
   pooled chain [above ++ t :: below] and receive the same competitors cs for the height of t in DIFFERENT ORDERS end in
   the same state; the block of the contested height is the one candidate among t and cs that wins against every other
   one (highest ratio, then smallest hash); if that is t nothing changed, otherwise it sits directly on [below] and what
   was built on t is gone *)
Theorem C14_competitors_order_independent : forall a above t below cs cs',
  wf a -> no_sends a -> rchain a = above ++ t :: below -> (sh a <= length below)%nat -> Z.of_nat (length (rchain a)) < two63 ->
  Forall (competitor_of below t) cs -> Forall capped (t :: cs) -> NoDup (map bhash (t :: cs)) -> Permutation cs cs' ->
  let w := champion t cs in
  run a (map (OAdd false) cs') = run a (map (OAdd false) cs) /\
  In w (t :: cs) /\ (forall y, In y (t :: cs) -> bhash y <> bhash w -> wins w y) /\
  exists above', rchain (run a (map (OAdd false) cs)) = above' ++ w :: below /\
                 (bhash w = bhash t -> above' = above /\ w = t) /\ (bhash w <> bhash t -> above' = []).
Proof. exact competitors_order_independent. Qed.
(* under the cap and with positive base plasma the rule is a strict total order on blocks with different hashes *)
Theorem C14_priority_transitive : forall a b c, capped a -> capped b -> capped c -> wins a b -> wins b c -> wins a c.
Proof. exact wins_trans. Qed.
(* non-vacuity: pooled b2 (with b3 on it) and three competitors for its height, two with the same best ratio: both
   arrival orders of the equal pair end with the smaller hash 55, directly on g1 *)
Example C14_equal_ratio_competitors_both_orders :
  let g1 := mkBlock 11 0 1 21000 21000 false in
  let b2 := mkBlock 22 11 2 21000 21000 false in
  let b3 := mkBlock 33 22 3 21000 21000 false in
  let c1 := mkBlock 77 11 2 42000 21000 false in
  let c2 := mkBlock 55 11 2 42000 21000 false in
  let c3 := mkBlock 44 11 2 30000 21000 false in
  let a := mkAcct [b3; b2; g1] 1 in
  wf a /\ no_sends a /\ Forall (competitor_of [g1] b2) [c1; c2; c3] /\ Forall capped [b2; c1; c2; c3] /\
  champion b2 [c1; c2; c3] = c2 /\
  run a (map (OAdd false) [c1; c2; c3]) = mkAcct [c2; g1] 1 /\ run a (map (OAdd false) [c2; c3; c1]) = mkAcct [c2; g1] 1.
Proof.
  cbv zeta. split; [unfold wf; cbn; repeat split; lia|]. split; [repeat constructor|].
  split; [repeat constructor|]. split; [repeat constructor; unfold MaxPlasmaForAccountBlock; cbn; lia|].
  repeat split; vm_compute; reflexivity.
Qed.
(* the hypothesis "base plasma positive" is needed: with a block of base plasma 0 among others the rule runs in a circle
   (1/1 beats 0/0 by hash, 0/0 beats 2/1 by hash, 2/1 beats 1/1 by ratio). It does not arise: contract receives are all
   0/0 (the hash alone decides among them), user blocks have at least the base plasma of an empty block *)
Example C14_priority_cycle_with_zero_base :
  let x := mkBlock 1 0 2 1 1 false in let y := mkBlock 2 0 2 0 0 false in let z := mkBlock 3 0 2 2 1 false in
  wins x y /\ wins y z /\ wins z x.
Proof. cbv zeta. repeat split; vm_compute; reflexivity. Qed.

(* the rule the theorems above are about is the code: [higher_priority] equals chain.higherPriority as translated from
   chain/account_pool.go by go2coq on every run (uint64 products with wrap; bytes.Compare of the hashes as its result) *)
Theorem C14_priority_rule_is_the_source : forall a b,
  higher_priority a b =
  priority_code (ZV.gen.Pure.higherPriority (btotal a) (bbase b) (btotal b) (bbase a) (bytes_compare (bhash a) (bhash b))).
Proof. exact higher_priority_is_source. Qed.
