(* C01 — Token supply is conserved: balances + in-flight sends = recorded supply.
   Only statements; each is closed by a lemma proved in theories/LedgerProofs.v.
   The model (theories/Ledger.v) mirrors vm/vm.go, vm/vm_context/balance.go, chain/account/{balance,received,sequencer}.go,
   the sequencer push of chain/momentum/ledger_store.go, the value checks of verifier/account_block.go and
   vm/embedded/implementation/token.go; every other embedded method is the arbitrary parameter [KOther]. *)
From ZV Require Import Prelude Ledger LedgerProofs LedgerEmb LedgerEmbProofs LedgerSource.
Require ZV.gen.Pure ZV.gen.PureFunds.
From ZV Require Import TokenSource.
From ZV.gen Require Import PureToken.
From ZV.gen Require Import Consts.
Open Scope Z_scope.

(* every accepted account block / confirmation preserves the invariant (frontier at or above the
   receiver-mismatch enforcement height: enf = true) *)
Theorem C01_inv_step : forall s o s' r,
  Inv s -> step true s o = (s', r) -> Inv s'.
Proof. exact step_inv. Qed.

(* all histories: any sequence of user sends, user receives, contract receives (any method outcome, valid or
   invalid arguments, refunds, issue / mint / burn) and confirmations, from any state satisfying the invariant *)
Theorem C01_supply_conserved : forall ops s0,
  Inv s0 ->
  let s := run true s0 ops in
  (forall z, z <> ZeroId -> tok_total s z = sum_bal z (bal s) + inflight_sum z s) /\
  (forall z, tok_total s z <= tok_max s z) /\
  (forall a z, 0 <= balance s a z).
Proof. exact supply_conserved. Qed.

(* the recorded supply of every token is changed by nothing but a successful IssueToken / Mint / Burn received
   by the token contract: transfers, every other contract call, failed and refunded calls leave it unchanged *)
Theorem C01_only_token_ops_change_supply : forall enf s o s' r,
  step enf s o = (s', r) ->
  (forall z, tok_total s' z = tok_total s z) \/
  (exists h k dh rok, o = OContractReceive TokenContract h k dh rok /\ is_token_call k = true /\ r = ROk true).
Proof. exact only_token_ops_change_supply. Qed.

(* a failed call is refunded exactly: token table and all balances as before, the send is consumed, and one new
   send of the same token and the full amount goes back to the caller (none if the amount was zero) *)
Theorem C01_refund_exact : forall enf s c h k dh rok s',
  WF s -> contract_receive enf s c h k dh rok = (s', ROk false) ->
  exists sd, find_send h (sends s) = Some sd /\
    toks s' = toks s /\ (forall a z, balance s' a z = balance s a z) /\
    rcv s' = (c, h) :: rcv s /\
    sends s' = sends s ++ (if 0 <? s_amt sd then [mkSend (hd 0 dh) c (s_from sd) (s_zts sd) (s_amt sd)] else []).
Proof. exact refund_exact. Qed.

(* a block that is refused (any error, incl. Go panics) leaves the ledger untouched *)
Theorem C01_rejected_no_change : forall enf s o s' e,
  step enf s o = (s', RErr e) -> s' = s.
Proof. exact rejected_no_change. Qed.

(* the equality already holds for a genesis configuration that passes CheckTokenTotalSupply
   (with supply <= max and non-negative balances, which that check does not look at) *)
Theorem C01_genesis_sound : forall balances tokens,
  check_token_total_supply balances tokens = true ->
  Forall (fun zt => t_total (snd zt) <= t_max (snd zt)) tokens ->
  Forall (fun e => 0 <= snd e) balances ->
  Inv (genesis_state balances tokens).
Proof. exact genesis_sound. Qed.

(* ---- concrete method bodies (theories/Emb.v through theories/LedgerEmb.v): Donate, DepositQsr, WithdrawQsr, CollectReward,
   Fuse, CancelFuse, Stake, Cancel.  For them the VM discipline is a theorem: *)
Theorem C01_supply_conserved_concrete : forall xs s0, Inv s0 -> Inv (run_x true s0 xs).
Proof. exact run_x_inv. Qed.

Theorem C01_concrete_methods_disciplined : forall m now height sd data dok,
  is_token_call (call_of_emb m now height sd data dok) = false /\
  (call_of_emb m now height sd data dok = KPanic \/ exists ok ds, call_of_emb m now height sd data dok = KOther ok ds).
Proof. exact call_of_emb_disciplined. Qed.

(* Donate, DepositQsr, Fuse, Stake keep what they receive and send nothing *)
Theorem C01_keepers_send_nothing : forall m now height sd data dok ds,
  (m = MDonate \/ m = MDepositQsr \/ m = MFuse \/ m = MStake) ->
  emb_outcome m now height sd data dok = Some (Some ds) -> ds = [].
Proof. exact emb_keepers_send_nothing. Qed.

(* WithdrawQsr / CancelFuse / Cancel pay exactly the stored amount (QSR / QSR / ZNN), once, to the caller *)
Theorem C01_withdraw_pays_caller : forall dep now height sd data dok ds,
  emb_outcome (MWithdrawQsr dep) now height sd data dok = Some (Some ds) ->
  dep <> 0 /\ ds = [(addr_of_bytes (addr_bytes (Ledger.s_from sd)), QsrId, dep, dok)].
Proof. exact emb_withdraw_pays_caller. Qed.
Theorem C01_cancel_fuse_pays_caller : forall entry now height sd data dok ds,
  emb_outcome (MCancelFuse entry) now height sd data dok = Some (Some ds) ->
  exists amt exp, entry = Some (amt, exp) /\ exp <= height /\
                  ds = [(addr_of_bytes (addr_bytes (Ledger.s_from sd)), QsrId, amt, dok)].
Proof. exact emb_cancel_fuse_pays_caller. Qed.
Theorem C01_cancel_stake_pays_caller : forall entry now height sd data dok ds,
  emb_outcome (MCancelStake entry) now height sd data dok = Some (Some ds) ->
  exists amt exp, entry = Some (amt, exp) /\ exp <= now /\
                  ds = [(addr_of_bytes (addr_bytes (Ledger.s_from sd)), ZnnId, amt, dok)].
Proof. exact emb_cancel_stake_pays_caller. Qed.

(* CollectReward emits only zero-amount Mint calls to the token contract *)
Theorem C01_collect_only_mint_calls : forall znn qsr now height sd data dok ds,
  emb_outcome (MCollectReward znn qsr) now height sd data dok = Some (Some ds) ->
  Forall (fun d => d = (TokenContract, ZnnId, 0, dok)) ds /\ (length ds <= 2)%nat.
Proof. exact emb_collect_only_mint_calls. Qed.

(* record: below the enforcement height a send could be received by an account it was not addressed to and
   again by the addressee; the invariant then fails (protocol history; C03 names the enforcement height) *)
Theorem C01_pre_enforcement_refuted :
  Inv pre_enf_state /\ ~ supply_eq (run false pre_enf_state pre_enf_ops).
Proof. exact pre_enforcement_refuted. Qed.

(* non-vacuity: a history with issue, mint to an embedded address, a failed call with refund, and a burn *)
Definition ex_genesis : state :=
  genesis_state [((100, 1), 10000000000)] [(1, mkToken 10000000000 4611686018427387903 3 true true)].
Definition ex_ops : list op :=
  [ OSend 1001 100 1 1 TokenIssueAmount true; OConfirm 1001;
    OContractReceive 1 1001 (KIssue 50 1000 5000 true true true true) [1002] true; OConfirm 1002;
    OReceive 100 1002;
    OSend 1003 100 1 0 0 true; OConfirm 1003;
    OContractReceive 1 1003 (KMint 50 500 2 true true) [1004] true; OConfirm 1004;
    OContractReceive 2 1004 (KOther true []) [] true;
    OSend 1005 100 2 50 300 true; OConfirm 1005;
    OContractReceive 2 1005 (KOther false []) [1006] true; OConfirm 1006;
    OReceive 100 1006;
    OSend 1007 100 1 50 200 true; OConfirm 1007;
    OContractReceive 1 1007 (KBurn true) [] true ].
Example C01_history_example :
  let s := run true ex_genesis ex_ops in
  tok_total s 50 = 1300 /\ tok_max s 50 = 5000 /\ balance s 100 50 = 800 /\ balance s 2 50 = 500 /\
  balance s 1 50 = 0 /\ inflight_sum 50 s = 0 /\ balance s 1 1 = TokenIssueAmount /\ length (sends s) = 7%nat.
Proof. vm_compute. repeat split; reflexivity. Qed.
Example C01_genesis_example : Inv ex_genesis.
Proof. apply genesis_sound; [vm_compute; reflexivity | |]; repeat constructor; cbn; lia. Qed.

(* ---- the balance arithmetic of the model IS the code: vm.enoughFunds and accountVmContext.AddBalance / SubBalance
   translated from /repo's source by go2coq on every run (gen/PureFunds.v); the balance read from the account store is
   an input, the value handed to SetBalance an output of the translations *)
Theorem C01_enough_funds_is_the_source : forall s a z v,
  ZV.gen.PureFunds.enoughFunds z (get_bal (a, z) (bal s)) 0 v = GoSem.Ok (enough_funds s a z v).
Proof. exact enough_funds_is_source. Qed.
Theorem C01_sub_balance_is_the_source : forall s a z v,
  ZV.gen.PureFunds.SubBalance v (get_bal (a, z) (bal s)) 0 0 =
  match sub_balance s a z v with
  | Some s' => GoSem.Ok (Some (get_bal (a, z) (bal s')))
  | None => GoSem.Panic
  end.
Proof. exact sub_balance_is_source. Qed.
Theorem C01_add_balance_is_the_source : forall s a z v,
  ZV.gen.PureFunds.AddBalance v (get_bal (a, z) (bal s)) 0 0 = GoSem.Ok (Some (get_bal (a, z) (bal (add_balance s a z v)))).
Proof. exact add_balance_is_source. Qed.

(* ---- the two operations that change a token's recorded supply after its issue, proved DIRECTLY about the code:
   MintMethod.ReceiveBlock and BurnMethod.ReceiveBlock translated from /repo's source by go2coq on every run
   (gen/PureToken.v); result = (descendant blocks, error, written TotalSupply [MaxSupply], effect Save, amount handed to
   AddBalance / SubBalance of the token contract). See theories/TokenSource.v. *)
Theorem C01_source_mint_success : forall total v u g mintable max amt zts embSender sv embRecv pe recv owner sender bl total' es eb,
  Mint_receive total v u g mintable max amt zts embSender sv embRecv pe recv owner sender = GoSem.Ok (bl, 0, total', es, eb) ->
  bl = [(recv, amt, zts)] /\ total' = total + amt /\ total' <= max /\ mintable = true /\
  es = Some 1 /\ eb = Some amt /\
  ((zts = ZnnTokenStandard \/ zts = QsrTokenStandard) -> embSender = true) /\
  (zts <> ZnnTokenStandard -> zts <> QsrTokenStandard -> owner = sender).
Proof. exact mint_success. Qed.
Theorem C01_source_mint_refusal : forall total v u g mintable max amt zts embSender sv embRecv recv owner sender bl e total' es eb,
  Mint_receive total v u g mintable max amt zts embSender sv embRecv 0 recv owner sender = GoSem.Ok (bl, e, total', es, eb) -> e <> 0 ->
  bl = [] /\ total' = total /\ es = None /\ eb = None.
Proof. exact mint_refusal. Qed.
Theorem C01_source_burn_success : forall total max v g burnable owner sender mintable amt sv bl total' max' es eb,
  Burn_receive total max v g burnable owner sender mintable amt sv = GoSem.Ok (bl, 0, total', max', es, eb) ->
  bl = [] /\ total' = total - amt /\ max' = (if mintable then max else max - amt) /\
  (burnable = true \/ owner = sender) /\ es = Some 1 /\ eb = Some amt.
Proof. exact burn_success. Qed.
Theorem C01_source_burn_refusal : forall total max v g burnable owner sender mintable amt sv bl e total' max' es eb,
  Burn_receive total max v g burnable owner sender mintable amt sv = GoSem.Ok (bl, e, total', max', es, eb) -> e <> 0 ->
  bl = [] /\ total' = total /\ max' = max /\ es = None /\ eb = None.
Proof. exact burn_refusal. Qed.
Theorem C01_source_mint_burn_keep_supply_within_max :
  (forall total v u g mintable max amt zts embSender sv embRecv pe recv owner sender bl total' es eb,
     Mint_receive total v u g mintable max amt zts embSender sv embRecv pe recv owner sender = GoSem.Ok (bl, 0, total', es, eb) ->
     total' <= max /\ eb = Some (total' - total)) /\
  (forall total max v g burnable owner sender mintable amt sv bl total' max' es eb,
     Burn_receive total max v g burnable owner sender mintable amt sv = GoSem.Ok (bl, 0, total', max', es, eb) ->
     0 <= amt -> total <= max -> total' <= max' /\ eb = Some (total - total')).
Proof. exact mint_burn_keep_supply_within_max. Qed.

(* ---- the two places where an ordinary block moves value, proved DIRECTLY about the code: vm.applySend and
   vm.applyReceive translated whole from /repo's source by go2coq on every run (gen/PureFunds.v). Inputs: the verdicts of
   GetEmbeddedMethod / ValidateSendBlock, the balance read by enoughFunds, the verdicts of GetAccountBlockByHash /
   MarkAsReceived; output: the error and the amount handed to SubBalance / AddBalance (None = call not reached).
   A send debits exactly its amount and only when it is covered; a receive credits exactly the amount of the send it
   references and only after MarkAsReceived accepted it; a refusal moves nothing. *)
Theorem C01_source_apply_send_debits : forall gm vs z b amt eff,
  ZV.gen.PureFunds.applySend gm vs z b 0 amt = GoSem.Ok (0, eff) ->
  eff = Some amt /\ (z = 0 \/ amt <= b) /\ (gm = Err_constants_ErrNotContractAddress \/ gm = 0 /\ vs = 0).
Proof. exact apply_send_debits. Qed.
Theorem C01_source_apply_send_refusal : forall gm vs z b amt e eff,
  ZV.gen.PureFunds.applySend gm vs z b 0 amt = GoSem.Ok (e, eff) -> e <> 0 -> eff = None.
Proof. exact apply_send_refusal. Qed.
Theorem C01_source_apply_send_then_debit : forall gm vs z b amt eff,
  z <> 0 -> ZV.gen.PureFunds.applySend gm vs z b 0 amt = GoSem.Ok (0, eff) ->
  ZV.gen.PureFunds.SubBalance amt b 0 0 = GoSem.Ok (Some (b - amt)).
Proof. exact apply_send_then_debit. Qed.
Theorem C01_source_apply_receive_credits : forall g m amt eff,
  ZV.gen.PureFunds.applyReceive g m amt = (0, eff) -> eff = Some amt /\ g = 0 /\ m = 0.
Proof. exact apply_receive_credits. Qed.
Theorem C01_source_apply_receive_refusal : forall g m amt e eff,
  ZV.gen.PureFunds.applyReceive g m amt = (e, eff) -> e <> 0 -> eff = None.
Proof. exact apply_receive_refusal. Qed.

(* the steps of the invariant ARE the source: the hand model's apply_send / user_receive (the functions the induction over
   histories above is about) against the translated vm.applySend / vm.applyReceive / SubBalance / AddBalance, the
   translation's inputs instantiated with what the model reads *)
Theorem C01_apply_send_is_the_source : forall s h from to z v gm vs,
  hash_used h s = false ->
  let b := get_bal (from, z) (bal s) in
  let vok := (gm =? Err_constants_ErrNotContractAddress) || ((gm =? 0) && (vs =? 0)) in
  match apply_send s h from to z v vok with
  | inl s' =>
      ZV.gen.PureFunds.applySend gm vs z b 0 v = GoSem.Ok (0, Some v) /\
      ZV.gen.PureFunds.SubBalance v b 0 0 = GoSem.Ok (Some (get_bal (from, z) (bal s')))
  | inr e =>
      if e =? E_METHOD then exists c, c <> 0 /\ ZV.gen.PureFunds.applySend gm vs z b 0 v = GoSem.Ok (c, None)
      else if e =? E_INSUFFICIENT then ZV.gen.PureFunds.applySend gm vs z b 0 v = GoSem.Ok (Err_constants_ErrInsufficientBalance, None)
      else ZV.gen.PureFunds.applySend gm vs z b 0 v = GoSem.Ok (0, Some v) /\ ZV.gen.PureFunds.SubBalance v b 0 0 = GoSem.Panic
  end.
Proof. exact apply_send_is_source. Qed.
Theorem C01_user_receive_is_the_source : forall enf s a h s',
  user_receive enf s a h = (s', ROk true) ->
  exists sd, find_send h (sends s) = Some sd /\
    ZV.gen.PureFunds.applyReceive 0 0 (s_amt sd) = (0, Some (s_amt sd)) /\
    ZV.gen.PureFunds.AddBalance (s_amt sd) (get_bal (a, s_zts sd) (bal s)) 0 0 = GoSem.Ok (Some (get_bal (a, s_zts sd) (bal s'))).
Proof. exact user_receive_is_source. Qed.
