(* C05 — Momentums come only from the elected pillar; the schedule is deterministic.
   Only statements; each is closed by a lemma proved in theories/. *)
From Coq Require Import Permutation.
From ZV Require Import Prelude GoSem Election ElectionProofs MomentumVerif MomentumVerifProofs MomentumVerifSource.
Require ZV.gen.Pure ZV.gen.PureMomentumVerifier.
From ZV.gen Require Import Consts.
Open Scope Z_scope.

(* A momentum that is applied without error AND written to the chain satisfies every clause of the statement:
   it extends the frontier (hash and height), is strictly later than it and not more than 10 s ahead of the clock,
   its hash is the hash of its content, its changes-hash is the hash of the state changes its execution produces,
   the signature verifies, and the signer is the pillar the election assigns to the slot of its timestamp.
   [perm] is math/rand's Perm; cx_hash / cx_exec / cx_sig_ok are the observed values of ComputeHash, PatchHash of
   the execution, and ed25519.Verify. For every chain, every context, every candidate momentum. *)
Theorem C05_accept_sound :
  forall (perm : Z -> nat -> list nat) (nc rc : nat) (bt genesis : Z) (delegs_at : Z -> list deleg) cx m,
  NoDup (map m_height (cx_chain cx)) ->
  accepted perm nc rc bt genesis delegs_at cx m = true ->
  exists f,
    frontier_of (cx_chain cx) = Some f /\
    mo_prev m = m_hash f /\ u64 (mo_height m - 1) = m_height f /\
    m_ts f < mo_ts m /\
    time_sec (mo_ts m) <= time_sec (cx_now cx) + 10 /\
    mo_hash m = cx_hash cx /\
    cx_exec cx = XOk (mo_changes m) /\
    cx_sig_ok cx = true /\ mo_pk_len m = 32 /\
    momentum_producer perm nc rc bt genesis delegs_at (cx_chain cx) (mo_ts m) = PFound (mo_producer m) /\
    mo_chain m = cx_chain_id cx /\ mo_version m = 1 /\ mo_data_len m = 0 /\
    content_check cx m = VOk.
Proof. exact accepted_sound. Qed.

(* The content / prefetch clause of C05_accept_sound spelled out ("commits to its content"): a candidate passes content()
   only if it is presented with exactly the account blocks its content names - as many distinct blocks (by identifier:
   the Go map) as the content has headers, every header names a presented block, and the per-address linking scan is ok.
   A momentum presented with a surplus block (or lacking one) is not accepted. *)
Theorem C05_accepted_content_exact :
  forall cx m, content_check cx m = VOk ->
  Z.of_nat (length (mo_content m)) <= MaxAccountBlocksInMomentum /\
  distinct_ids (cx_prefetched cx) [] = Z.of_nat (length (mo_content m)) /\
  Forall (fun h => exists b, lookup_pb (cx_prefetched cx) (h_hash h) (h_height h) = Some b) (mo_content m) /\
  content_scan (cx_prefetched cx) (cx_acct cx) [] (mo_content m) = VOk.
Proof. exact content_exact. Qed.

(* ... in particular a valid momentum signed by anybody but the elected pillar is never accepted *)
Theorem C05_wrong_producer_rejected :
  forall (perm : Z -> nat -> list nat) (nc rc : nat) (bt genesis : Z) (delegs_at : Z -> list deleg) cx m a,
  momentum_producer perm nc rc bt genesis delegs_at (cx_chain cx) (mo_ts m) = PFound a ->
  a <> mo_producer m -> accepted perm nc rc bt genesis delegs_at cx m = false.
Proof. exact wrong_producer_rejected. Qed.

(* Exactly one registered active pillar per slot, for every pillar/delegation configuration with at least one
   pillar (equal weights, fewer pillars than slots, any RandCount <= NodeCount, any proof height), for every
   behaviour of math/rand that returns permutations: no panic, the fill-up loop terminates. *)
Theorem C05_one_per_slot :
  forall (perm : Z -> nat -> list nat) (nc rc : nat),
  perm_ok perm -> (rc <= nc)%nat -> (0 < nc)%nat ->
  forall ds height, ds <> [] ->
  exists l, select perm nc rc ds height = EOk l /\ length l = nc /\ Forall (fun x => In x ds) l.
Proof. exact select_one_per_slot. Qed.

(* DESIGN section 6, F4: with ZERO active pillars the fill-up loop of filterRandom never ends (whatever the fuel).
   No producer exists in that situation anyway; this is why C05_one_per_slot carries ds <> []. *)
Theorem C05_no_pillars_no_schedule :
  forall (perm : Z -> nat -> list nat) (nc rc : nat),
  perm_ok perm -> (rc <= nc)%nat -> (0 < nc)%nat ->
  forall fuel height, select_f perm nc rc fuel [] height = EFuel.
Proof. exact no_pillars_no_schedule. Qed.

(* The schedule is a function of the SET of delegations: the order in which the ledger iteration, a cache or a
   restarted node hands them over does not matter (pillar names are unique). *)
Theorem C05_order_independent :
  forall (perm : Z -> nat -> list nat) (nc rc : nat) d d' height,
  Permutation d d' -> NoDup (map d_name d) -> select perm nc rc d height = select perm nc rc d' height.
Proof. exact select_order_independent. Qed.

Theorem C05_sort_canonical :
  forall d d', Permutation d d' -> NoDup (map d_name d) -> dsort d = dsort d'.
Proof. exact dsort_canonical. Qed.

(* The lookup StartTime == timestamp: a producer is found only for a timestamp that is a slot start of the tick,
   and it is the pillar at that slot number. *)
Theorem C05_slot_lookup :
  forall bt, 0 < bt -> forall ncz genesis tick ps ts p,
  find_start (producer_events bt ncz genesis tick ps) ts = Some p ->
  Z.of_nat (length ps) = ncz /\ (ts - tick_start bt ncz genesis tick) mod bt = 0 /\
  0 <= (ts - tick_start bt ncz genesis tick) / bt < ncz /\
  nth_error ps (Z.to_nat ((ts - tick_start bt ncz genesis tick) / bt)) = Some p.
Proof. exact slot_lookup. Qed.

(* The election cache is keyed by the proof momentum's hash; [compute h] is the recomputation from the ledger as of
   the momentum with hash h (hash-determines-state). Through any history of queries, LRU evictions and rollbacks
   every answer equals recomputation: warm, cold, restarted and reorganised nodes agree. *)
Theorem C05_cache_coherent :
  forall (R : Type) (compute : Z -> R) ops c,
  coherent compute c ->
  Forall (fun hv => snd hv = compute (fst hv)) (fst (cache_run compute c ops)) /\
  coherent compute (snd (cache_run compute c ops)).
Proof. intros R compute ops c. exact (cache_run_coherent compute ops c). Qed.

(* ---- non-vacuity *)
Definition id_perm (_ : Z) (n : nat) : list nat := seq 0 n.
Example C05_perm_oracle_satisfiable : perm_ok id_perm.
Proof. intros s n. apply Permutation_refl. Qed.

Definition ex_delegs : list deleg := [mkD [98] 2 2000; mkD [97] 1 21000; mkD [99] 3 2000].
Example C05_fill_up_example :
  select id_perm 5 2 ex_delegs 7 = EOk [mkD [97] 1 21000; mkD [98] 2 2000; mkD [99] 3 2000; mkD [97] 1 21000; mkD [98] 2 2000].
Proof. vm_compute. reflexivity. Qed.

(* an accepted momentum exists: chain of two momentums, three pillars, five slots of 10 s *)
Definition ex_chain : list msum := [mkM 11 1 1000; mkM 12 2 1010].
Definition ex_ctx : vctx := mkCtx 100 ex_chain 5000 [] [] (XOk 77) 13 true.
Definition ex_mom : mom := mkMom 1 100 13 12 3 1020 0 77 32 64 3 [].
(* the same momentum presented with an account block its (empty) content does not name is refused *)
Example C05_surplus_block_refused :
  apply_momentum id_perm 5 2 10 1000 (fun _ => ex_delegs)
    (mkCtx 100 ex_chain 5000 [mkPB 7 99 1 0 false] [] (XOk 77) 13 true) ex_mom = VContentMismatch.
Proof. vm_compute. reflexivity. Qed.
Example C05_accept_example :
  accepted id_perm 5 2 10 1000 (fun _ => ex_delegs) ex_ctx ex_mom = true.
Proof. vm_compute. reflexivity. Qed.

(* ---- the checks of the momentum acceptance model ARE the code: rawMomentumVerifier.all() and
   momentumTransactionVerifier.all() with the methods they call (verifier/momentum.go) are translated from /repo's source
   by go2coq on every run (gen/Pure.v: rmv_..., mtv_...) and equal the model. Inputs of the translations: the frontier of
   the verifier's store (= the parent), the comparison with time.Now()+10s, the result of content() (modelled by hand:
   content_check), PatchHash, ComputeHash, VerifySignature, VerifyMomentumProducer. mcode maps go2coq's error numbers
   to verr_code. *)
Theorem C05_raw_verify_shape : forall cx m,
  raw_verify cx m =
  if mo_height m =? 1 then VNotGenesis else
  if mo_prev m =? 0 then VPrevHashMissing else
  match find_mom (cx_chain cx) (mo_prev m) (u64 (mo_height m - 1)) with
  | None => VPreviousMissing
  | Some par => raw_tail par cx m
  end.
Proof. exact raw_verify_unfold. Qed.
Theorem C05_raw_checks_are_the_source :
  forall (enc : Z -> Z -> Z), (forall a b a' b', enc a b = enc a' b' -> a = a' /\ b = b') ->
  forall par cx m ce,
  mo_height m <> 1 -> mo_prev m <> 0 ->
  mcode ce = verr_code (content_check cx m) ->
  mcode (ZV.gen.PureMomentumVerifier.rmv_all (mo_chain m) (cx_chain_id cx) (mo_version m) (to_int64 (mo_ts m))
           (time_sec (cx_now cx) + 10 <? time_sec (mo_ts m)) 0 (m_ts par) (mo_ts m)
           (mo_height m) (mo_prev m =? 0) 0
           (enc (mo_prev m) (u64 (mo_height m - 1))) (enc (m_hash par) (m_height par))
           (mo_data_len m) ce)
  = verr_code (raw_tail par cx m).
Proof. exact raw_all_is_source. Qed.
Theorem C05_transaction_checks_are_the_source :
  forall perm nc rc bt genesis delegs_at cx m changes result err sigerr,
  producer_answer (producer_part perm nc rc bt genesis delegs_at cx m) result err ->
  (sigerr = 0 <-> mo_pk_len m = 32) ->
  mcode (ZV.gen.PureMomentumVerifier.mtv_all changes (mo_changes m) (cx_hash cx) (mo_hash m) (mo_sig_len m) (mo_pk_len m)
           (cx_sig_ok cx) sigerr result err)
  = verr_code (tx_verify perm nc rc bt genesis delegs_at cx m changes).
Proof. exact tx_all_is_source. Qed.

