(* C07 — Versioned store: a view at commit X shows exactly the state as of X.
   Statements only. Model: theories/Store.v (mirrors /repo/common/db), specification: theories/StoreSpec.v.
   Every theorem quantifies over ALL operation sequences (commits on the frontier and on stale parents,
   rollbacks, opening views at any identifier, reads, scans, writes, snapshots, change sets, cache eviction),
   restricted only by wf_ops: a frontier commit carries the next height and a fresh hash and does not write the
   manager's own keys, and a rollback is requested only on a non-empty chain. *)
From ZV Require Import Prelude.
From stdpp Require Import gmap sorting.
From ZV Require Import Store StoreSpec StoreProofs StoreTheorems StoreFindings MemStore MemStoreProofs.
Open Scope Z_scope.

(* the model of the code refines the specification: same answers on every well-formed operation sequence *)
Theorem C07_refines_spec : forall ops, wf_ops ast_init ops -> run st_init ops = arun ast_init ops.
Proof. exact store_refines_spec. Qed.

(* lookups, existence tests and ordered prefix scans through a view opened at commit i answer with the content
   the store had when i was the frontier — whatever commits, rollbacks, evictions and other views come after *)
Theorem C07_get_exact : forall pre v i post k e,
  wf_ops ast_init (pre ++ [OGet v i] ++ post ++ [OVGet v k]) ->
  a_find (a_chain (afinal ast_init pre)) i = Some e -> i <> zero_id ->
  no_sub_of v (a_views (afinal ast_init pre)) -> Forall (not_slot v) post ->
  last_ans (run st_init (pre ++ [OGet v i] ++ post ++ [OVGet v k])) = Some (AOpt (ce_state e !! k)).
Proof. exact view_get_exact. Qed.

Theorem C07_has_exact : forall pre v i post k e,
  wf_ops ast_init (pre ++ [OGet v i] ++ post ++ [OVHas v k]) ->
  a_find (a_chain (afinal ast_init pre)) i = Some e -> i <> zero_id ->
  no_sub_of v (a_views (afinal ast_init pre)) -> Forall (not_slot v) post ->
  last_ans (run st_init (pre ++ [OGet v i] ++ post ++ [OVHas v k])) =
  Some (ABool (match ce_state e !! k with Some _ => true | None => false end)).
Proof. exact view_has_exact. Qed.

Theorem C07_scan_exact : forall pre v i post p e,
  wf_ops ast_init (pre ++ [OGet v i] ++ post ++ [OVScan v p]) ->
  a_find (a_chain (afinal ast_init pre)) i = Some e -> i <> zero_id ->
  no_sub_of v (a_views (afinal ast_init pre)) -> Forall (not_slot v) post ->
  last_ans (run st_init (pre ++ [OGet v i] ++ post ++ [OVScan v p])) = Some (AScan (ascan (ce_state e) p)).
Proof. exact view_scan_exact. Qed.

(* ... where an ordered prefix scan of a content is: sorted by key, exactly the entries with that prefix *)
Theorem C07_scan_is_sorted_filter : forall Sm p, Sorted kv_le (ascan Sm p) /\
  forall k x, (k, x) ∈ ascan Sm p <-> has_prefix p k = true /\ Sm !! k = Some x.
Proof. exact ascan_spec. Qed.

(* a commit is accepted only on the current frontier: any other parent leaves every later observation unchanged *)
Theorem C07_stale_parent_refused : forall pre prev cid data p post,
  prev <> a_front_id (a_chain (afinal ast_init pre)) ->
  wf_ops ast_init (pre ++ [OAdd prev cid data p] ++ post) -> wf_ops ast_init (pre ++ post) ->
  skipn (S (length pre)) (run st_init (pre ++ [OAdd prev cid data p] ++ post)) =
  skipn (length pre) (run st_init (pre ++ post)).
Proof. exact stale_parent_refused. Qed.

(* writes made through a view: seen by that view, by its snapshots, and by nothing else *)
Theorem C07_write_seen : forall a v k x la Sm,
  a_views a !! v = Some (ARoot la Sm) -> aget (a_views (fst (astep a (OVPut v k x)))) v !! k = Some x.
Proof. exact view_write_seen. Qed.
Theorem C07_write_local : forall a v k x v' la Sm,
  v' <> v -> no_sub_of v' (a_views a) -> a_views a !! v' = Some (ARoot la Sm) ->
  a_chain (fst (astep a (OVPut v k x))) = a_chain a /\ aget (a_views (fst (astep a (OVPut v k x)))) v' = overlay la Sm.
Proof. exact view_write_local. Qed.
Theorem C07_snapshot_sees_parent : forall vs v nv la Sm lb k,
  v <> nv -> vs !! v = Some (ARoot la Sm) -> vs !! nv = Some (ASnap lb v) -> lb !! k = None ->
  aget vs nv !! k = aget vs v !! k.
Proof. exact snapshot_sees_parent. Qed.

Theorem C07_subset_is_window : forall vs v nv la Sm pre k,
  v <> nv -> vs !! v = Some (ARoot la Sm) -> vs !! nv = Some (ASub pre v) ->
  aget vs nv !! k = aget vs v !! (pre ++ k).
Proof. exact subset_is_window. Qed.

(* the change set of a view replays to exactly its writes and is ordered by key *)
Theorem C07_changes_replay : forall la Sm, abs_apply Sm (achanges la) = overlay la Sm.
Proof. exact changes_replay. Qed.
Theorem C07_changes_sorted : forall la, Sorted (fun a b => lex_leb (pkey a) (pkey b) = true) (achanges la).
Proof. exact changes_sorted. Qed.

(* the in-memory manager (unconfirmed account chains; transactions with several commits) *)
Theorem C07_mem_stale_parent_refused : forall m prev inter headc p,
  prev <> mm_front m -> mm_add m prev inter headc p = (m, false).
Proof. exact mm_stale_refused. Qed.
Theorem C07_mem_commit_exact : forall m inter headc p st,
  mm_state m (mm_front m) = Some st ->
  let full := p ++ concat (map (fun c => frontier_ops (fst c) (snd c)) (inter ++ [headc])) in
  exists m', mm_add m (mm_front m) inter headc p = (m', true) /\ mm_front m' = fst headc /\
    mm_stable_id m' = mm_stable_id m /\
    mm_state m' (fst headc) = Some (abs_apply st full) /\
    (forall i, i ∉ map fst (inter ++ [headc]) -> mm_state m' i = mm_state m i).
Proof. exact mm_add_spec. Qed.
Theorem C07_mem_rollback_restores : forall m inter headc p st,
  mm_state m (mm_front m) = Some st -> fst headc <> mm_stable_id m -> mm_front m ∉ map fst (inter ++ [headc]) ->
  exists m1 m2, mm_add m (mm_front m) inter headc p = (m1, true) /\ mm_pop m1 = (m2, true) /\
    mm_front m2 = mm_front m /\ mm_state m2 (mm_front m) = Some st.
Proof. exact mm_add_pop. Qed.

(* records of the defects this work found in the unfixed code (fixed in /repo; see known_findings.json) *)
Theorem C07_old_tombstone_refuted : dec (Some tomb_old) = Some [] /\ dec (Some (enc_op (PDel [1]))) = None.
Proof. exact old_tombstone_reads_as_present. Qed.
Theorem C07_old_skip_refuted : skip_old (enc_op (PPut [1] [])) = true /\ dec (Some (enc_op (PPut [1] []))) = Some [].
Proof. exact old_skip_hides_empty_value. Qed.

(* non-vacuity: a concrete well-formed history with a commit, a second commit, a historical view and a rollback *)
Definition ex_h (b : Z) : list Z := b :: repeat 0 31%nat.
Definition ex_ops : list op :=
  [OAdd zero_id (ex_h 1, 1) [] [PPut [5] [1]];
   OAdd (ex_h 1, 1) (ex_h 2, 2) [] [PDel [5]; PPut [6] []];
   OGet 1 (ex_h 1, 1); OPop; OEvict; OVGet 1 [5]].
Example C07_example_wf : wf_ops ast_init ex_ops /\ last_ans (run st_init ex_ops) = Some (AOpt (Some [1])).
Proof.
  split; [|vm_compute; reflexivity].
  cbn [wf_ops ex_ops]. repeat split; try done; cbn; try lia; repeat constructor; try done.
Qed.
