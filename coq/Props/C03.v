(* C03 — Only valid account blocks are ever accepted.
   Only statements; each is closed by a lemma proved in theories/VerifierProofs.v.
   The model (theories/Verifier.v) is the decision of vm.Supervisor.ApplyBlock as one function returning the error
   class: verifier.AccountBlock (getContext + all() in its order), vm.applyBlock (plasma, embedded validation, funds,
   regenerate-and-compare), verifier.AccountBlockTransaction (hash, signature, producer, descendants).
   [Valid] spells the clauses of the property on the block and on what the node knows (ctx). *)
From ZV Require Import Prelude Ledger Verifier VerifierProofs VerifierSource.
Require ZV.gen.Pure ZV.gen.PureAccountVerifier.
Open Scope Z_scope.

(* for all node states (ctx) and all candidate blocks *)
Theorem C03_accept_sound : forall c b, accept c b = true -> Valid c b.
Proof. exact accept_sound. Qed.

(* corrupting any field(s) of a block (b' is ANY block, c' what the node knows for it) makes it rejected,
   or yields a block that is itself valid by the same rules *)
Theorem C03_mutation_closed : forall c' b', accept c' b' = false \/ Valid c' b'.
Proof. exact mutation_closed. Qed.

(* contract blocks carry no key and are reproduced exactly by the receiver: hash and changes-hash of the
   regenerated block, and the hash is the hash of the content *)
Theorem C03_contract_receive_reproduced : forall c b,
  accept c b = true -> is_emb (v_addr b) = true ->
  v_type b = T_CONTRACT_RECEIVE /\ c_regen c = Some (v_hash b, v_changes b) /\ v_hash b = v_computed b /\
  v_pk_len b = 0 /\ v_sig_len b = 0 /\ c_next c = Some (v_from b) /\ c_from_conf c = v_ma_height b.
Proof. exact contract_receive_reproduced. Qed.

(* a user block is signed by the key that owns the account and spends no more than the account holds *)
Theorem C03_user_block_authorised : forall c b,
  accept c b = true -> is_emb (v_addr b) = false ->
  v_sig_ok b = true /\ v_pk_addr b = v_addr b /\ v_hash b = v_computed b /\
  (v_type b = T_USER_SEND -> exists v, v_amount b = Some v /\ 0 <= v < 2 ^ 255 /\ (v_zts b <> 0 -> v <= c_balance c)).
Proof. exact user_block_authorised. Qed.

(* batched contract sends never stand alone; genesis-type blocks are never accepted *)
Theorem C03_contract_send_rejected : forall c b, v_type b = T_CONTRACT_SEND -> accept c b = false.
Proof. exact contract_send_rejected. Qed.
Theorem C03_genesis_type_rejected : forall c b, v_type b = T_GENESIS -> accept c b = false.
Proof. exact genesis_type_rejected. Qed.

(* record of the defect fixed in /repo by 3d79e01 (found by the C13 check, also a violation of this property):
   before the fix the descendants of a contract receive were not matched against their own hashes *)
Theorem C03_descendant_hash_refuted :
  apply_block_gen false forged_desc_ctx forged_desc_blk = 0 /\
  (exists d, In d (v_descs forged_desc_blk) /\ d_hash d <> d_computed d) /\
  apply_block forged_desc_ctx forged_desc_blk = V_DescendantVerify.
Proof. exact descendant_hash_refuted. Qed.

(* "a receive references a ... SEND": fromHash() only looks the referenced block up and compares its ToAddress, it never
   asks whether that block is a send block.  On a ledger of accepted blocks every non-send block has a zero ToAddress
   (first theorem; [ledger_wf] states it for the referenced block), so FROM THE ENFORCEMENT HEIGHT ON the addressee rule
   implies that the referenced block is a send (second theorem: the property's clause under the hypothesis that excludes
   exactly the legacy regime).  BELOW the enforcement height a user receive that references a confirmed non-send block
   is accepted (third theorem; known finding c03-legacy-receive-references-non-send-block, reproduced on the real node
   by the harness in every run). *)
Theorem C03_accepted_receive_zero_to : forall c b,
  accept c b = true -> is_send_t (v_type b) = false -> v_to b = 0.
Proof. exact accepted_receive_zero_to. Qed.
Theorem C03_receive_references_send_partial : forall c b,
  accept c b = true -> is_send_t (v_type b) = false -> ledger_wf c ->
  c_enf_height c <= c_frontier_height c -> v_addr b <> 0 -> c_from_is_send c = true.
Proof. exact receive_references_send_partial. Qed.
Theorem C03_legacy_receive_of_non_send_refuted : exists c b,
  accept c b = true /\ v_type b = T_USER_RECEIVE /\ ledger_wf c /\ c_from_is_send c = false /\
  c_frontier_height c < c_enf_height c.
Proof. exists legacy_nonsend_ctx, legacy_nonsend_blk. exact legacy_receive_of_non_send_refuted. Qed.

(* non-vacuity: the model accepts a user send, a user receive and a contract receive; refuses the other two types *)
Definition ex_ctx : vctx :=
  mkC 100 true true (Some 5) true (Some (2001, 5)) (Some 7) (Some 101) true 8 false (Some 3001) 9 0
      1000000000000 0 0 (Some 21000) true 500 (Some (4001, 4002)).
Definition ex_send : vblk :=
  mkV 1 100 T_USER_SEND 4000 4000 2001 6 2500 9 101 102 (Some 300) 1 0 [] 21000 0 false 0 32 64 true 101.
Definition ex_recv : vblk :=
  mkV 1 100 T_USER_RECEIVE 4000 4000 2001 6 2500 9 101 0 (Some 0) 0 3001 [] 21000 0 false 0 32 64 true 101.
Definition ex_crecv : vblk :=
  mkV 1 100 T_CONTRACT_RECEIVE 4001 4001 2001 6 2500 8 2 0 (Some 0) 0 3001
      [mkD 5001 5001 1 100 T_CONTRACT_SEND true 6 2001 2500 8 (Some 5) 1 101 0 0] 0 0 false 4002 0 0 false 0.
Definition ex_ctx_c : vctx :=
  mkC 100 true true (Some 5) true (Some (2001, 5)) (Some 7) (Some 2) true 8 false (Some 3001) 9 0
      0 0 0 None true 0 (Some (4001, 4002)).
Example C03_accept_examples :
  accept ex_ctx ex_send = true /\ accept ex_ctx ex_recv = true /\ accept ex_ctx_c ex_crecv = true /\
  apply_block ex_ctx (mkV 1 100 T_USER_SEND 4000 4000 2001 6 2500 9 101 102 (Some 501) 1 0 [] 21000 0 false 0 32 64 true 101) = V_InsufficientBalance /\
  apply_block ex_ctx (mkV 1 100 T_USER_SEND 4000 4000 2001 6 2500 9 101 102 (Some 300) 1 0 [] 21000 0 false 0 32 64 true 103) = V_PublicKeyWrongAddress /\
  apply_block ex_ctx (mkV 1 100 T_USER_SEND 4000 4009 2001 6 2500 9 101 102 (Some 300) 1 0 [] 21000 0 false 0 32 64 true 101) = V_HashInvalid.
Proof. vm_compute. repeat split; reflexivity. Qed.

(* ---- the checks of the acceptance model ARE the code: every method of verifier.accountBlockVerifier
   (verifier/account_block.go) is translated from /repo's source by go2coq on every run (gen/Pure.v, abv_...) and equals
   its model ck_... in theories/Verifier.v; store reads, IsEmbeddedAddress and CheckPoWNonce are inputs of the
   translations, hashes / (hash, height) pairs / headers enter as numbers under any injective encoding (one exists:
   C03_encoding_exists). vcode maps go2coq's error numbers to the verdict codes of the model. *)
Theorem C03_version_is_the_source : forall v, vcode (ZV.gen.PureAccountVerifier.abv_version v) = ck_version v.
Proof. exact version_is_source. Qed.
Theorem C03_chain_identifier_is_the_source : forall cid expected,
  vcode (ZV.gen.PureAccountVerifier.abv_chainIdentifier cid expected) = ck_chain cid expected.
Proof. exact chain_is_source. Qed.
Theorem C03_block_type_is_the_source : forall t emb, vcode (ZV.gen.PureAccountVerifier.abv_blockType t emb) = ck_type t emb.
Proof. exact type_is_source. Qed.
Theorem C03_amounts_is_the_source : forall t nn a zts to from,
  vres (ZV.gen.PureAccountVerifier.abv_amounts t nn a zts (from =? 0) to) = ck_amounts t (if nn then Some a else None) zts to from.
Proof. exact amounts_is_source. Qed.
Theorem C03_pow_is_the_source : forall d emb pow_ok, vcode (ZV.gen.PureAccountVerifier.abv_pow d emb pow_ok) = ck_pow d emb pow_ok.
Proof. exact pow_is_source. Qed.
Theorem C03_verifier_all_is_the_source :
  forall (enc : Z -> Z -> Z), (forall a b a' b', enc a b = enc a' b' -> a = a' /\ b = b') -> enc 0 0 = 0 ->
  forall (hdr : Z -> Z), (forall a a', hdr a = hdr a' -> a = a') ->
  forall c b pm, c_prev_ma_height c = Some pm ->
  vres (src_all enc hdr c b pm) = all_model c b.
Proof. exact all_is_source. Qed.
Theorem C03_previous_is_the_source :
  forall (enc : Z -> Z -> Z), (forall a b a' b', enc a b = enc a' b' -> a = a' /\ b = b') ->
  forall c b,
  vcode (ZV.gen.PureAccountVerifier.abv_previous (v_height b) (v_prev b =? 0) (is_emb (v_addr b)) 0
           (match c_frontier c with Some _ => true | None => false end)
           (match c_frontier c with Some f => enc2 enc f | None => 0 end)
           (enc2 enc (eff_prev b))) = ck_previous c b.
Proof. exact previous_is_source. Qed.
Theorem C03_from_hash_is_the_source : forall c b,
  vcode (ZV.gen.PureAccountVerifier.abv_fromHash (v_type b) 0 (match c_from_to c with Some _ => true | None => false end)
           (v_addr b) (match c_from_to c with Some to => to | None => 0 end)
           (c_frontier_height c) (c_enf_height c) (c_received c)) = ck_from c b.
Proof. exact from_is_source. Qed.
Theorem C03_sequencer_is_the_source :
  forall (hdr : Z -> Z), (forall a a', hdr a = hdr a' -> a = a') ->
  forall c b,
  vcode (ZV.gen.PureAccountVerifier.abv_sequencer (is_emb (v_addr b)) (v_type b) (match c_next c with Some _ => true | None => false end) 0
           (hdr (v_from b)) (match c_next c with Some h => hdr h | None => 0 end)) = ck_sequencer c b.
Proof. exact sequencer_is_source. Qed.
(* the tail of verify_block's list of checks is all_model *)
Theorem C03_verify_block_uses_all : forall c b,
  verify_block c b =
  first_err [ (if v_type b =? T_CONTRACT_SEND then V_TypeInvalidExternal else 0); ck_context c b; all_model c b ].
Proof. exact verify_block_uses_all. Qed.
(* non-vacuity of the encoding hypotheses *)
Theorem C03_encoding_exists : exists enc : Z -> Z -> Z,
  (forall a b a' b', enc a b = enc a' b' -> a = a' /\ b = b') /\ enc 0 0 = 0.
Proof. exists enc_ex. split; [exact enc_ex_inj|exact enc_ex_zero]. Qed.

