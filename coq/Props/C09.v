(* C09 — Every accepted call to an embedded contract completes or refunds.
   Only statements; each is closed by a lemma proved in theories/. *)
From ZV Require Import Prelude GoSem Abi AbiProofs VmReceive VmReceiveProofs.
From ZV.gen Require Import Consts.
Open Scope Z_scope.

(* ABI decoding (unpack.go / argument.go / abi.go) of any well-formed type on ANY byte string: every slice
   expression and index is in range, whatever offsets and lengths the data claims *)
Theorem C09_abi_total : forall ty data,
  wf_ty ty -> Forall is_byte data -> len data < MaxData -> unpack ty data <> UPanic.
Proof. exact unpack_total. Qed.

Theorem C09_abi_method_total : forall sel tys input,
  Forall wf_ty tys -> tuple_words tys <= MaxTuple -> Forall is_byte input -> len input < MaxData ->
  unpack_method sel tys input <> UPanic /\ unpack_empty_method sel input <> UPanic.
Proof. intros. split; [apply unpack_method_total; assumption | apply unpack_empty_method_total]. Qed.

(* every ABI type that occurs in the embedded contracts (no fixed arrays, no bytesN) is well formed *)
Theorem C09_abi_types_in_use_wf : forall t, in_use t = true -> wf_ty t /\ words t = 1.
Proof. intros t H. split; [apply in_use_wf | apply in_use_words]; exact H. Qed.

(* generateEmbeddedReceive: if the methods of the table do not panic and keep their frame, the receive block is
   produced, it either applies the call or refunds exactly (amount, token) to the sender with storage and
   balances as before, and the inbox cursor advances by exactly one *)
Theorem C09_vm_completes : forall (cstate : Type) dest_check (lookup : send -> lres cstate) a s,
  table_ok cstate dest_check lookup -> nonneg cstate a -> send_ok s -> dest_check (refund_of s) = None ->
  outcome_ok cstate a s (generate_receive cstate dest_check lookup a s).
Proof. exact vm_completes. Qed.

Theorem C09_vm_no_panic_no_internal_error : forall (cstate : Type) dest_check (lookup : send -> lres cstate) a s,
  table_ok cstate dest_check lookup -> nonneg cstate a -> send_ok s -> dest_check (refund_of s) = None ->
  generate_receive cstate dest_check lookup a s <> RPanic /\ forall c, generate_receive cstate dest_check lookup a s <> RInternal c.
Proof. exact vm_no_panic. Qed.

(* a call to a method that a spork retired between send and receive is refunded *)
Theorem C09_method_removed_refunds : forall (cstate : Type) dest_check (lookup : send -> lres cstate) a s,
  lookup s = LNotFound -> nonneg cstate a -> send_ok s -> dest_check (refund_of s) = None ->
  exists a', generate_receive cstate dest_check lookup a s =
               RRefunded a' (if 0 <? s_amount s then [refund_of s] else []) E_method_not_found /\
             a_cursor a' = a_cursor a + 1 /\ a_store a' = a_store a /\
             forall z, bal_get (a_bal a') z = bal_get (a_bal a) z.
Proof. exact method_removed_refunds. Qed.

(* record of the defect fixed in /repo (ea6a52e): the old order of Save() made that path panic *)
Theorem C09_method_removed_prefix_refuted : forall (cstate : Type) dest_check (lookup : send -> lres cstate) a s,
  lookup s = LNotFound -> generate_receive_prefix cstate dest_check lookup a s = RPanic.
Proof. exact method_removed_prefix_panics. Qed.

(* no accepted input wedges the inbox: every queued call gets its receive block, whatever came before *)
Theorem C09_next_processable : forall (cstate : Type) dest_check (lookup : send -> lres cstate) q,
  table_ok cstate dest_check lookup ->
  Forall (fun s => send_ok s /\ dest_check (refund_of s) = None) q ->
  forall a, nonneg cstate a ->
  exists a', process_all cstate dest_check lookup a q = Some a' /\
             a_cursor a' = a_cursor a + Z.of_nat (length q) /\ nonneg cstate a'.
Proof. exact inbox_never_wedged. Qed.

Example C09_hostile_offset_is_an_error :
  unpack TString (be_bytes 32 (2 ^ 63 - 32)) = UErr E_slice_offset.
Proof. vm_compute. reflexivity. Qed.
