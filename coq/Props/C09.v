(* C09 — Every accepted call to an embedded contract completes or refunds.
   Only statements; each is closed by a lemma proved in theories/. *)
From ZV Require Import Prelude GoSem Abi AbiProofs VmReceive VmReceiveProofs Emb EmbProofs.
From ZV Require Import VmSource.
From ZV.gen Require Import Consts.
Open Scope Z_scope.

(* ---- ABI decoding (unpack.go / argument.go / abi.go): for any well-formed type, on ANY byte string, every slice
   expression and index is in range, whatever offsets and lengths the data claims *)
Theorem C09_abi_total : forall ty data,
  wf_ty ty -> Forall is_byte data -> len data < MaxData -> unpack ty data <> UPanic.
Proof. exact unpack_total. Qed.

Theorem C09_abi_method_total : forall sel tys input,
  Forall wf_ty tys -> tuple_words tys <= MaxTuple -> Forall is_byte input -> len input < MaxData ->
  unpack_method sel tys input <> UPanic.
Proof. exact unpack_method_total. Qed.

Theorem C09_abi_empty_method_total : forall sel input, unpack_empty_method sel input <> UPanic.
Proof. exact unpack_empty_method_total. Qed.

(* every ABI type that occurs in the embedded contracts (no fixed arrays, no bytesN) is well formed *)
Theorem C09_abi_types_in_use_wf : forall t, in_use t = true -> wf_ty t.
Proof. exact in_use_wf. Qed.

(* ---- generateEmbeddedReceive, for ANY method table whose methods do not panic, leave the sequencer alone and
   produce well-formed descendants (table_ok; J is any invariant the table maintains): the receive block is
   produced; it either applies the call or refunds exactly (amount, token) to the sender with storage and balances
   as before; the inbox cursor advances by exactly one *)
Theorem C09_vm_completes : forall (cstate : Type) dest_check (J : cacct cstate -> Prop) (lookup : send -> lres cstate) a s,
  table_ok cstate dest_check J lookup -> nonneg cstate a -> J a -> send_ok s -> dest_check (refund_of s) = None ->
  outcome_ok cstate J a s (generate_receive cstate dest_check lookup a s).
Proof. exact vm_completes. Qed.

Theorem C09_vm_no_panic_no_internal_error : forall (cstate : Type) dest_check (J : cacct cstate -> Prop) (lookup : send -> lres cstate) a s,
  table_ok cstate dest_check J lookup -> nonneg cstate a -> J a -> send_ok s -> dest_check (refund_of s) = None ->
  generate_receive cstate dest_check lookup a s <> RPanic /\ forall c, generate_receive cstate dest_check lookup a s <> RInternal c.
Proof. exact vm_no_panic. Qed.

(* a call to a method that a spork retired between send and receive is refunded *)
Theorem C09_method_removed_refunds : forall (cstate : Type) dest_check (lookup : send -> lres cstate) a s,
  lookup s = LNotFound -> nonneg cstate a -> send_ok s -> dest_check (refund_of s) = None ->
  exists a', generate_receive cstate dest_check lookup a s =
               RRefunded a' (if 0 <? s_amount s then [refund_of s] else []) E_method_not_found /\
             a_cursor a' = a_cursor a + 1 /\ a_store a' = a_store a /\
             forall z, bal_get (a_bal a') z = bal_get (a_bal a) z.
Proof. exact method_removed_refunds. Qed.

(* record of the defect fixed in /repo (ea6a52e): with the old position of Save() that path panicked *)
Theorem C09_method_removed_prefix_refuted : forall (cstate : Type) dest_check (lookup : send -> lres cstate) a s,
  lookup s = LNotFound -> generate_receive_prefix cstate dest_check lookup a s = RPanic.
Proof. exact method_removed_prefix_panics. Qed.

(* no accepted input wedges the inbox: every queued call gets its receive block, whatever came before *)
Theorem C09_next_processable : forall (cstate : Type) dest_check (J : cacct cstate -> Prop) (lookup : send -> lres cstate) q,
  table_ok cstate dest_check J lookup ->
  Forall (fun s => send_ok s /\ dest_check (refund_of s) = None) q ->
  forall a, nonneg cstate a -> J a ->
  exists a', process_all cstate dest_check lookup a q = Some a' /\
             a_cursor a' = a_cursor a + Z.of_nat (length q) /\ nonneg cstate a' /\ J a'.
Proof. exact inbox_never_wedged. Qed.

(* ---- KNOWN FINDING refund-to-contract-sender-fails (reproduced on the real node by suite "wedge"): a failing call
   that carries value and was sent by a contract cannot be refunded; generateEmbeddedReceive returns an error, no
   receive block exists and the call stays at the head of the receiver's inbox.  All completion theorems above are
   the partial statement: they assume [dest_check (refund_of s) = None], which excludes exactly this class. *)
Theorem C09_refund_to_contract_refuted : forall (cstate : Type) dest_check (lookup : send -> lres cstate) a s m c c',
  lookup s = LFound m -> m (credited cstate a s) s = MErr c -> 0 < s_amount s -> dest_check (refund_of s) = Some c' ->
  generate_receive cstate dest_check lookup a s = RInternal c'.
Proof. intros cstate dc. exact (refund_to_contract_wedges cstate dc (fun _ => True)). Qed.
Theorem C09_refund_to_contract_partial : forall (cstate : Type) dest_check (J : cacct cstate -> Prop) (lookup : send -> lres cstate) q,
  table_ok cstate dest_check J lookup ->
  Forall (fun s => send_ok s /\ dest_check (refund_of s) = None) q ->
  forall a, nonneg cstate a -> J a ->
  exists a', process_all cstate dest_check lookup a q = Some a' /\
             a_cursor a' = a_cursor a + Z.of_nat (length q) /\ nonneg cstate a' /\ J a'.
Proof. exact inbox_never_wedged. Qed.

(* spork regimes only ever move to a larger method table (checked on the real tables every run): a call that found
   its contract and method when it was accepted finds them when it is received, so the nil-method dereference of
   generateEmbeddedReceive (lookup error other than ErrContractMethodNotFound) is not reachable *)
Theorem C09_accepted_call_keeps_its_method : forall t t' c sel,
  mt_incl t t' = true -> mt_has t c sel = true -> mt_has t' c sel = true.
Proof. exact mt_incl_keeps. Qed.

(* ---- the modelled contracts satisfy table_ok, hence complete or refund, for every contract state satisfying the
   contract's storage invariant (which every step re-establishes); [ef s] is the frontier momentum and the
   constants under which the send s is received *)
Theorem C09_plasma_completes : forall dc (ef : send -> env) a s,
  nonneg pstore a -> J_plasma a -> send_ok s -> dc (refund_of s) = None ->
  outcome_ok pstore J_plasma a s (generate_receive pstore dc (plasma_lookup ef) a s).
Proof. exact plasma_completes. Qed.
Theorem C09_stake_completes : forall dc (ef : send -> env) a s,
  (forall s, env_ok (ef s)) -> nonneg sstore a -> J_stake a -> send_ok s -> dc (refund_of s) = None ->
  outcome_ok sstore J_stake a s (generate_receive sstore dc (stake_lookup ef) a s).
Proof. exact stake_completes. Qed.
Theorem C09_htlc_completes : forall dc H (ef : send -> env) a s,
  nonneg hstore a -> J_htlc a -> send_ok s -> dc (refund_of s) = None ->
  outcome_ok hstore J_htlc a s (generate_receive hstore dc (htlc_lookup H ef) a s).
Proof. exact htlc_completes. Qed.
Theorem C09_common_completes : forall dc self a s,
  nonneg cstore a -> J_common a -> send_ok s -> dc (refund_of s) = None ->
  outcome_ok cstore J_common a s (generate_receive cstore dc (common_lookup self) a s).
Proof. exact common_completes. Qed.
Theorem C09_token_completes : forall dc a s,
  nonneg tstore a -> J_token a -> send_ok s -> dc (refund_of s) = None ->
  outcome_ok tstore J_token a s (generate_receive tstore dc token_lookup a s).
Proof. exact token_completes. Qed.
Theorem C09_htlc_inbox_never_wedged : forall dc H (ef : send -> env) q,
  Forall (fun s => send_ok s /\ dc (refund_of s) = None) q ->
  forall a, nonneg hstore a -> J_htlc a ->
  exists a', process_all hstore dc (htlc_lookup H ef) a q = Some a' /\ a_cursor a' = a_cursor a + Z.of_nat (length q) /\
             nonneg hstore a' /\ J_htlc a'.
Proof. exact htlc_inbox_never_wedged. Qed.

(* ---- per method: once ValidateSendBlock accepted the send, ReceiveBlock does not panic, in every contract state *)
Theorem C09_common_deposit_qsr_no_panic : forall a s x, deposit_qsr_validate s = VOk x -> deposit_qsr_receive a s <> MPanic.
Proof. exact deposit_qsr_no_panic. Qed.
Theorem C09_common_withdraw_qsr_no_panic : forall self a s x, withdraw_qsr_validate s = VOk x -> withdraw_qsr_receive self a s <> MPanic.
Proof. exact withdraw_qsr_no_panic. Qed.
Theorem C09_common_collect_reward_no_panic : forall a s x, collect_validate s = VOk x -> collect_receive a s <> MPanic.
Proof. exact collect_no_panic. Qed.
Theorem C09_common_donate_no_panic : forall S (a : cacct S) s x, donate_validate s = VOk x -> donate_receive a s <> MPanic.
Proof. exact donate_no_panic. Qed.
Theorem C09_plasma_fuse_no_panic : forall e a s x, fuse_validate e s = VOk x -> fuse_receive e a s <> MPanic.
Proof. exact fuse_no_panic. Qed.
Theorem C09_plasma_cancel_fuse_no_panic : forall e a s x, cancel_fuse_validate s = VOk x -> cancel_fuse_receive e a s <> MPanic.
Proof. exact cancel_fuse_no_panic. Qed.
Theorem C09_stake_stake_no_panic : forall e a s x, stake_validate e s = VOk x -> stake_receive e a s <> MPanic.
Proof. exact stake_no_panic. Qed.
Theorem C09_stake_cancel_no_panic : forall e a s x, cancel_stake_validate s = VOk x -> cancel_stake_receive e a s <> MPanic.
Proof. exact cancel_stake_no_panic. Qed.
Theorem C09_htlc_create_no_panic : forall e a s x, create_validate s = VOk x -> create_receive e a s <> MPanic.
Proof. exact create_htlc_no_panic. Qed.
Theorem C09_htlc_reclaim_no_panic : forall e a s x, reclaim_validate s = VOk x -> reclaim_receive e a s <> MPanic.
Proof. exact reclaim_htlc_no_panic. Qed.
Theorem C09_htlc_unlock_no_panic : forall H e a s x, unlock_validate s = VOk x -> unlock_receive H e a s <> MPanic.
Proof. exact unlock_htlc_no_panic. Qed.
Theorem C09_htlc_proxy_unlock_no_panic : forall (allow : bool) (a : cacct hstore) (s : send) x,
  proxy_validate (if allow then Sel_htlc_AllowProxyUnlock else Sel_htlc_DenyProxyUnlock) s = VOk x -> proxy_receive allow a s <> MPanic.
Proof. exact proxy_htlc_no_panic. Qed.
Theorem C09_token_mint_no_panic : forall a s x, mint_validate s = VOk x -> mint_receive a s <> MPanic.
Proof. exact mint_no_panic. Qed.
Theorem C09_token_update_no_panic : forall a s x, update_token_validate s = VOk x -> update_token_receive a s <> MPanic.
Proof. exact update_token_no_panic. Qed.
(* Burn debits what was just credited: the balance hypothesis is discharged inside C09_token_completes *)
Theorem C09_token_burn_no_panic : forall a s x,
  burn_validate s = VOk x -> s_amount s <= bal_get (a_bal a) (s_zts s) -> burn_receive a s <> MPanic.
Proof. exact burn_no_panic. Qed.

(* non-vacuity *)
Example C09_hostile_offset_is_an_error :
  unpack TString (be_bytes 32 (2 ^ 63 - 32)) = UErr E_slice_offset.
Proof. vm_compute. reflexivity. Qed.
Example C09_fuse_applies :
  let s := {| s_from := repeat 1 20; s_from_embedded := false; s_amount := 5000000000; s_zts := ZtsQsr;
              s_data := Sel_plasma_Fuse ++ repeat 0 12 ++ repeat 7 20; s_hash := repeat 9 32 |} in
  let e := {| e_now := 100; e_height := 10; c_FuseMinAmount := 1000000000; c_CostPerFusionUnit := 1000000000; c_FuseExpiration := 6;
              c_StakeMinAmount := 1; c_StakeTimeMin := 1; c_StakeTimeMax := 2; c_StakeTimeUnit := 1; c_TokenIssueAmount := 1 |} in
  match generate_receive pstore (fun _ => None) (plasma_lookup (fun _ => e)) {| a_bal := []; a_store := {| p_fusions := []; p_fused := [] |}; a_cursor := 0 |} s with
  | RApplied a' [] => a_cursor a' = 1 /\ bal_get (a_bal a') ZtsQsr = 5000000000 /\
                      p_fused (a_store a') = [(repeat 7 20, 5000000000)]
  | _ => False
  end.
Proof. vm_compute. repeat split. Qed.

(* ---- the refund path proved DIRECTLY about the code: VM.rollbackEmbedded (vm/vm.go) translated whole from /repo's source
   by go2coq on every run (gen/PureVm.v). Inputs: the error being rolled back, the verdict of GetAccountBlockByHash and
   the send block it returns (Amount, Address, TokenStandard), the verdict of vm.applySend on the refund, the two error
   results of finalizeEmbedded. Outputs: (methodErr, err, Reset called, amount handed to AddBalance, descendants handed
   to finalizeEmbedded as (ToAddress, Amount, TokenStandard), execution error handed to it). See theories/VmSource.v. *)
Theorem C09_source_rollback_refunds_exactly : forall me g amt from zts asv f1 f2 r1 r2 eR eA eB eE,
  ZV.gen.PureVm.rollbackEmbedded me g amt from zts asv f1 f2 = GoSem.Ok (r1, r2, eR, eA, eB, eE) ->
  g = 0 /\ eR = Some 1 /\ eA = Some amt /\
  ((0 < amt /\ asv = 0 /\ eB = Some [(from, amt, zts)] /\ eE = Some me /\ r1 = f1 /\ r2 = f2) \/
   (0 < amt /\ asv <> 0 /\ eB = None /\ eE = None /\ r1 = 0 /\ r2 = asv) \/
   (amt <= 0 /\ eB = Some [] /\ eE = Some me /\ r1 = f1 /\ r2 = f2)).
Proof. exact rollback_refunds_exactly. Qed.
Theorem C09_source_rollback_lookup_failure_panics : forall me g amt from zts asv f1 f2,
  g <> 0 -> ZV.gen.PureVm.rollbackEmbedded me g amt from zts asv f1 f2 = GoSem.Panic.
Proof. exact rollback_lookup_failure_panics. Qed.
(* the rollback of the hand model (the one the theorems over all queues above are about) IS the translated source *)
Theorem C09_rollback_is_the_source : forall (cstate : Type) (dest_check : dsend -> option Z) (num : bytes -> Z)
    (a : cacct cstate) (s : send) code f1 f2,
  match rollback cstate dest_check (Some a) s code with
  | RRefunded a2 ds c =>
      c = code /\
      ZV.gen.PureVm.rollbackEmbedded code 0 (s_amount s) (num (s_from s)) (num (s_zts s)) 0 f1 f2 =
      GoSem.Ok (f1, f2, Some 1, Some (s_amount s), Some (map (enc_d num) ds), Some code)
  | RInternal c =>
      c <> 0 ->
      ZV.gen.PureVm.rollbackEmbedded code 0 (s_amount s) (num (s_from s)) (num (s_zts s)) c f1 f2 =
      GoSem.Ok (0, c, Some 1, Some (s_amount s), None, None)
  | _ => True
  end.
Proof. exact rollback_is_source. Qed.
Example C09_source_rollback_examples :
  ZV.gen.PureVm.rollbackEmbedded 7 0 50 11 3 0 0 0 = GoSem.Ok (0, 0, Some 1, Some 50, Some [(11, 50, 3)], Some 7) /\
  ZV.gen.PureVm.rollbackEmbedded 7 0 0 11 3 0 0 0 = GoSem.Ok (0, 0, Some 1, Some 0, Some [], Some 7) /\
  ZV.gen.PureVm.rollbackEmbedded 7 0 50 11 3 9 0 0 = GoSem.Ok (0, 9, Some 1, Some 50, None, None).
Proof. exact rollback_examples. Qed.

(* "completes or refunds", proved DIRECTLY about VM.generateEmbeddedReceive as translated from source: the call is taken
   off the inbox first; then EITHER the context is committed (Done) with exactly the method's descendants and no error,
   which requires the method to be found, to succeed and every descendant to pass applySend, OR nothing is committed and
   rollbackEmbedded (the refund path above) is entered with a non-nil error: method not found (before any credit), the
   method's own error, or the first refused descendant. There is no third way out once the send block was found. *)
Theorem C09_source_receive_completes_or_rolls_back :
  forall g gm rb11 rb12 amt ds me rb21 rb22 items f1 f2 r1 r2 ePop eSave eRb eAdd eDone eB eE,
  ZV.gen.PureVm.generateEmbeddedReceive g gm rb11 rb12 amt ds me rb21 rb22 items f1 f2 = (r1, r2, ePop, eSave, eRb, eAdd, eDone, eB, eE) ->
  ePop = Some 1 /\
  ((g <> 0 /\ r2 = g /\ eSave = None /\ eRb = None /\ eAdd = None /\ eDone = None /\ eB = None /\ eE = None) \/
   (g = 0 /\ eSave = Some 1 /\
    ((eDone = Some 1 /\ eRb = None /\ eAdd = Some amt /\ eB = Some ds /\ eE = Some 0 /\
      gm <> ZV.gen.Pure.Err_constants_ErrContractMethodNotFound /\ me = 0 /\ Forall (fun v => v = 0) (verdicts items) /\ r1 = f1 /\ r2 = f2) \/
     (eDone = None /\ eB = None /\ eE = None /\ exists e, eRb = Some e /\ e <> 0 /\
      ((e = gm /\ gm = ZV.gen.Pure.Err_constants_ErrContractMethodNotFound /\ eAdd = None) \/
       (e = me /\ gm <> ZV.gen.Pure.Err_constants_ErrContractMethodNotFound /\ eAdd = Some amt) \/
       (me = 0 /\ gm <> ZV.gen.Pure.Err_constants_ErrContractMethodNotFound /\ eAdd = Some amt /\ In e (verdicts items))))))).
Proof. exact gen_receive_completes_or_rolls_back. Qed.

(* the hand model's generate_receive (the function the theorems over all queues above are about) IS the translated source:
   with the inputs of the translation instantiated by what the model computes (lookup verdict, the method's error, its
   descendants, and per descendant the verdict of apply_send on the state its predecessors left), the source commits
   exactly where the model answers RApplied and enters rollbackEmbedded with the model's error where the model rolls back;
   the model's remaining answers are the panics the translation does not express (nil method, panicking method) *)
Theorem C09_generate_receive_is_the_source :
  forall (cstate : Type) (dest_check : dsend -> option Z) (num : bytes -> Z) (rb1 rb2 : Z)
         (lookup : send -> lres cstate) (a : cacct cstate) (s : send) gm f1 f2,
  let a0 := pop_front cstate a in
  let a1 := add_balance cstate a0 (s_zts s) (s_amount s) in
  let enc := map (enc_d num) in
  let NotFound := ZV.gen.Pure.Err_constants_ErrContractMethodNotFound in
  let src := ZV.gen.PureVm.generateEmbeddedReceive in
  match lookup s with
  | LNotFound =>
      generate_receive cstate dest_check lookup a s = rollback cstate dest_check (Some a0) s (E_method_not_found) /\
      forall dsx me items,
      src 0 NotFound rb1 rb2 (s_amount s) dsx me rb1 rb2 items f1 f2 =
      (rb1, rb2, Some 1, Some 1, Some NotFound, None, None, None, None)
  | LFound m =>
      gm <> NotFound ->
      match m a1 s with
      | MErr c =>
          generate_receive cstate dest_check lookup a s = rollback cstate dest_check (Some a0) s c /\
          (c <> 0 -> forall dsx items,
           src 0 gm rb1 rb2 (s_amount s) dsx c rb1 rb2 items f1 f2 =
           (rb1, rb2, Some 1, Some 1, Some c, Some (s_amount s), None, None, None))
      | MOk a2 ds =>
          match apply_all cstate dest_check a2 ds with
          | ASOk a3 =>
              generate_receive cstate dest_check lookup a s = RApplied a3 ds /\
              src 0 gm rb1 rb2 (s_amount s) (enc ds) 0 rb1 rb2 (verdict_items cstate dest_check rb1 rb2 a2 ds) f1 f2 =
              (f1, f2, Some 1, Some 1, None, Some (s_amount s), Some 1, Some (enc ds), Some 0)
          | ASErr c =>
              generate_receive cstate dest_check lookup a s = rollback cstate dest_check (Some a0) s c /\
              (c <> 0 ->
               src 0 gm rb1 rb2 (s_amount s) (enc ds) 0 rb1 rb2 (verdict_items cstate dest_check rb1 rb2 a2 ds) f1 f2 =
               (rb1, rb2, Some 1, Some 1, Some c, Some (s_amount s), None, None, None))
          | ASPanic => generate_receive cstate dest_check lookup a s = RPanic
          end
      | MPanic => generate_receive cstate dest_check lookup a s = RPanic
      end
  | LOther => generate_receive cstate dest_check lookup a s = RPanic
  end.
Proof. exact generate_receive_is_source. Qed.
