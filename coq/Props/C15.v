(* C15 — Untrusted peers cannot crash or bloat the node (decision/arithmetic part of the message handler, the frame
   reader and the packet decoder; goroutine blocking and memory growth are runtime facts explored by the harness).
   Only statements; each is closed by a lemma proved in theories/HandlerProofs.v. *)
From ZV Require Import Prelude GoSem Paging Handler Frame HandlerProofs Session SessionProofs BaseMsg BaseMsgProofs EncHs EncHsProofs Discv DiscvProofs.
From ZV.gen Require Import Consts.
Open Scope Z_scope.

(* no request a peer can form makes the handler dereference a missing lookup result or slice out of range *)
Theorem C15_no_panic : forall H size r, 1 <= H < two63 -> wf_req H r -> handle H size r <> OPanic.
Proof. exact no_panic. Qed.

(* a hashes reply never carries more than MaxHashFetch hashes *)
Theorem C15_hashes_bounded : forall H size r l, 1 <= H < two63 -> wf_req H r ->
  handle H size r = OHashes l -> Z.of_nat (length l) <= MaxHashFetch.
Proof. exact hashes_bounded. Qed.

(* a blocks reply never carries more than MaxBlockFetch momentums, whatever the number of requested hashes *)
Theorem C15_blocks_bounded : forall H size r l tot, handle H size r = OBlocks l tot -> Z.of_nat (length l) <= MaxBlockFetch.
Proof. exact blocks_bounded. Qed.

(* the 10 MiB clause: the momentums of a blocks reply take at most ProtocolMaxMsgSize - 16 bytes (the RLP list header
   adds at most 9), whatever hashes are requested, repeated or not, and however heavy the momentums are *)
Theorem C15_blocks_bytes_bounded : forall H size r l tot, wf_req H r ->
  handle H size r = OBlocks l tot -> 0 <= tot <= ProtocolMaxMsgSize - 16.
Proof. exact blocks_bytes_bounded. Qed.

(* a message above ProtocolMaxMsgSize is rejected before its code is looked at or its payload decoded *)
Theorem C15_size_gate : forall H size r, ProtocolMaxMsgSize < size -> handle H size r = OErr ErrMsgTooLarge.
Proof. intros. apply size_gate. assumption. Qed.

(* what a hash-based request returns: the (capped) `amount` momentums ending at the named one *)
Theorem C15_get_hashes_exact : forall H ht amount, 1 <= ht <= H -> H < two63 -> in_u64 amount ->
  handle H 0 (RGetHashes (Some ht) amount) = OHashes (lower_hashes ht (clamp MaxHashFetch amount)).
Proof. exact get_hashes_exact. Qed.

(* the session is established only by a decodable status message of admissible size with matching genesis, network, version *)
Theorem C15_handshake_established : forall code size d g n v,
  handshake code size d g n v = -1 <-> code = StatusMsg /\ size <= ProtocolMaxMsgSize /\ d = true /\ g = true /\ n = true /\ v = true.
Proof. exact handshake_established. Qed.

(* frames: ReadMsg never slices out of range, a bad MAC is an error, a returned message needs both MACs, at most 2^24 bytes are allocated *)
Theorem C15_frame_safe : forall avail hmac_ok hdr fmac_ok code_ok,
  bytes_ok hdr -> length hdr = 16%nat ->
  let r := read_msg avail hmac_ok hdr fmac_ok code_ok in
  r <> FPanic /\
  (hmac_ok = false -> r = FShort \/ r = FBadHeaderMAC) /\
  (fmac_ok = false -> forall a f, r <> FMsg a f) /\
  (forall a f, r = FMsg a f -> 0 <= f <= a /\ a <= 16777216 /\ 32 + a + 16 <= avail /\ hmac_ok = true /\ fmac_ok = true /\ code_ok = true).
Proof. exact frame_safe. Qed.

Theorem C15_frame_size : forall fsize, 0 <= fsize < 16777216 ->
  fsize <= rsize fsize < fsize + 16 /\ rsize fsize mod 16 = 0 /\ rsize fsize <= 16777216.
Proof. exact rsize_spec. Qed.

(* packets: decodePacket never indexes out of range; a request is returned only with a good hash, a recoverable signature, a known type *)
Theorem C15_packet_safe : forall len hash_ok sig_ok ptype rlp_ok,
  let r := decode_packet len hash_ok sig_ok ptype rlp_ok in
  r <> PPanic /\
  (forall t, r = PReq t -> headSize + 1 <= len /\ hash_ok = true /\ sig_ok = true /\ rlp_ok = true /\ 1 <= t <= 4) /\
  (hash_ok = false -> r = PTooSmall \/ r = PBadHash) /\
  (sig_ok = false -> r = PTooSmall \/ r = PBadHash \/ r = PBadSig).
Proof. exact packet_safe. Qed.

(* connection life cycle: every phase has an armed timer — a peer that stops sending is dropped after at most
   FrameReadTimeoutSec seconds, from whatever state *)
Theorem C15_silent_peer_dropped : forall c, wf_conn c ->
  ph (Session.run c (repeat Tick (Z.to_nat FrameReadTimeoutSec))) = PClosed.
Proof. exact silent_peer_dropped. Qed.

(* the transport handshake phases end HandshakeTimeoutSec seconds after accept whatever the peer sends at whatever pace *)
Theorem C15_handshake_deadline : forall es c, wf_conn c -> (ph c = PEnc \/ ph c = PProto) ->
  HandshakeTimeoutSec - age c <= ticks es -> ph (Session.run c es) <> PEnc /\ ph (Session.run c es) <> PProto.
Proof. exact handshake_deadline. Qed.

(* the deadline component of the life cycle: no state before "peer added" lasts longer than the handshake timeout -
   whatever the remote side sends (handshake messages, garbage, bytes that complete nothing) at whatever pace, a
   connection is not in the encryption or the protocol handshake any more once HandshakeTimeoutSec seconds have passed
   since the accept: the pending slot is given back *)
Theorem C15_no_pre_peer_state_outlasts_handshake_timeout : forall es, HandshakeTimeoutSec <= ticks es ->
  ph (Session.run fresh es) <> PEnc /\ ph (Session.run fresh es) <> PProto.
Proof. exact no_pre_peer_state_outlasts_timeout. Qed.

(* a connection that only stalls in a handshake phase (silence, a partial auth message, half a frame, bytes trickled one
   at a time) is closed exactly when the timeout has passed - not later and not earlier - and stays in its phase till then *)
Theorem C15_stalled_handshake_closed_exactly_at_the_timeout : forall es c, wf_conn c -> (ph c = PEnc \/ ph c = PProto) ->
  Forall stalls es ->
  (ph (Session.run c es) = PClosed <-> HandshakeTimeoutSec - age c <= ticks es) /\
  (ph (Session.run c es) <> PClosed -> ph (Session.run c es) = ph c).
Proof. exact stalled_closed_iff. Qed.

(* the deadline of the protocol handshake is load-bearing: in the life cycle without it (deadline armed for the encryption
   handshake only) a peer that completes the encryption handshake and stays silent holds its slot for ever *)
Theorem C15_proto_handshake_deadline_is_load_bearing : forall n a,
  ph (run_nodl (mkConn PProto a 0) (repeat Tick n)) = PProto.
Proof. intros n a. exact (proto_deadline_is_load_bearing n a). Qed.

Example C15_stalled_examples :
  ph (Session.run fresh [Recv FProgress; Recv FPartial; Tick; Tick; Recv FPartial; Tick; Tick]) = PProto /\
  ph (Session.run fresh [Recv FProgress; Recv FPartial; Tick; Tick; Recv FPartial; Tick; Tick; Tick]) = PClosed /\
  ph (Session.run fresh [Tick; Recv FProgress; Tick; Recv FProgress; Tick; Recv FStatusOk]) = PRunning /\
  ph (run_nodl fresh [Recv FProgress; Tick; Tick; Tick; Tick; Tick; Tick; Tick]) = PProto.
Proof. repeat split; reflexivity. Qed.

(* holding a connection open (also in the status wait, which has no deadline of its own) costs the peer at least one
   frame per FrameReadTimeoutSec seconds *)
Theorem C15_open_needs_frames : forall es c, wf_conn c -> (ph c = PWaitStatus \/ ph c = PRunning) ->
  ph (Session.run c es) <> PClosed -> ticks es <= (frames es + 1) * FrameReadTimeoutSec - idle c - 1.
Proof. exact open_needs_frames. Qed.

(* base protocol: no message code (handshake, disconnect, ping, pong, unused base codes, sub-protocol codes inside
   and beyond the negotiated range) with no payload - any byte string, read with or without an input limit - makes
   the dispatcher of a running peer, the run loop's reaction, the handshake reader or setupConn reach a Go panic
   (the disconnect reason is indexed out of a decode target of one element) *)
Theorem C15_base_msg_no_panic : forall limited plen size code payload decodes version id_zero id_match caps_match,
  handle_base limited plen code payload <> HPanic /\ react limited plen code payload <> RPanic /\
  read_hs limited size code payload decodes version id_zero <> HsPanic /\
  setup_conn limited size code payload decodes version id_zero id_match caps_match <> SPanic.
Proof. exact base_msg_no_panic. Qed.

(* whatever bytes a disconnect message carries, the reason read from it is a uint64 *)
Theorem C15_disc_reason_uint64 : forall limited payload r, pbytes_ok payload ->
  disc_reason limited payload = Ok r -> 0 <= r < two64.
Proof. exact disc_reason_range. Qed.

(* the session of a running peer is ended only by a disconnect message or a code outside every negotiated range;
   handshake, ping, pong and the unused base codes never end it, whatever their payload; a ping is answered *)
Theorem C15_base_msg_closed_only_by : forall limited plen code payload s,
  react limited plen code payload = RClosed s -> code = DiscMsg \/ BaseProtocolLength + plen <= code.
Proof. exact react_closed_only_by. Qed.

(* a connection becomes a peer only through a handshake message of admissible size that decodes, with our version,
   a non-zero identity equal to the one of the encryption handshake and a matching capability *)
Theorem C15_peer_added_iff : forall limited size code payload decodes version id_zero id_match caps_match,
  setup_conn limited size code payload decodes version id_zero id_match caps_match = SAdded <->
  size <= BaseProtocolMaxMsgSize /\ code = HandshakeMsg /\ decodes = true /\ version = BaseProtocolVersion /\
  id_zero = false /\ id_match = true /\ caps_match = true.
Proof. exact setup_added_iff. Qed.

(* encryption handshake, before anybody is authenticated: whatever arrives as auth message on an accepted connection or
   as auth response on a dialed one - any number of bytes, an ECIES envelope that opens under the node's key or not, a
   public key field that is a point of the curve or not, a signature from which a key can be recovered or not - and
   whatever first frame follows, neither side of the handshake nor the rest of setupConn reaches a Go panic (the slices
   of the plaintext are in range, a key field that is not a curve point is refused before it reaches the scalar
   multiplication) *)
Theorem C15_enc_handshake_no_panic : forall got dec_ok key_valid sig_ok mac_ok size code payload decodes version id_zero id_match,
  recv_enc got dec_ok key_valid sig_ok <> EncPanic /\ init_enc got dec_ok key_valid <> EncPanic /\
  listen_conn got dec_ok key_valid sig_ok mac_ok size code payload decodes version id_zero id_match <> CPanic /\
  dial_conn got dec_ok key_valid mac_ok size code payload decodes version id_zero id_match <> CPanic.
Proof. exact enc_handshake_no_panic. Qed.

(* an accepted connection becomes a peer only if the complete auth message arrived, opened under the node's key, named a
   static key that is a curve point, carried a signature from which the ephemeral key is recovered, the first frame
   verified under the session secrets, and the hello in it is well-formed and names the identity of the auth message *)
Theorem C15_listen_peer_iff : forall got dec_ok key_valid sig_ok mac_ok size code payload decodes version id_zero id_match,
  listen_conn got dec_ok key_valid sig_ok mac_ok size code payload decodes version id_zero id_match = CPeer <->
  EncAuthMsgLen <= got /\ dec_ok = true /\ key_valid = true /\ sig_ok = true /\ mac_ok = true /\
  size <= BaseProtocolMaxMsgSize /\ code = HandshakeMsg /\ decodes = true /\ version = BaseProtocolVersion /\
  id_zero = false /\ id_match = true.
Proof. exact listen_peer_iff. Qed.

(* likewise for a dialed connection and the auth response *)
Theorem C15_dial_peer_iff : forall got dec_ok eph_valid mac_ok size code payload decodes version id_zero id_match,
  dial_conn got dec_ok eph_valid mac_ok size code payload decodes version id_zero id_match = CPeer <->
  EncAuthRespLen <= got /\ dec_ok = true /\ eph_valid = true /\ mac_ok = true /\
  size <= BaseProtocolMaxMsgSize /\ code = HandshakeMsg /\ decodes = true /\ version = BaseProtocolVersion /\
  id_zero = false /\ id_match = true.
Proof. exact dial_peer_iff. Qed.

(* a refusal in the encryption handshake is final, whatever the remote side sends afterwards *)
Theorem C15_enc_refused_never_peer : forall got dec_ok key_valid sig_ok mac_ok size code payload decodes version id_zero id_match,
  (recv_enc got dec_ok key_valid sig_ok = EncRefused ->
   listen_conn got dec_ok key_valid sig_ok mac_ok size code payload decodes version id_zero id_match = CRefusedEnc) /\
  (init_enc got dec_ok key_valid = EncRefused ->
   dial_conn got dec_ok key_valid mac_ok size code payload decodes version id_zero id_match = CRefusedEnc).
Proof. intros. split; [apply refused_never_peer|apply dial_refused_never_peer]. Qed.

(* record (fixed in /repo): decodeAuthResp took the responder's ephemeral key through importPublicKey, which yields nil
   coordinates for 64 bytes that are not a curve point; encHandshake.secrets then dereferenced them in the goroutine of
   the dial task: every complete response that opens and carries such a key ended the dialing node *)
Theorem C15_dial_unchecked_ephemeral_key_refuted : exists got, init_enc_gen false got true false = EncPanic.
Proof. exists EncAuthRespLen. apply init_unchecked_key_panics. unfold EncAuthRespLen. lia. Qed.
(* the same on the listening side is what NodeID.Pubkey's curve check stands against *)
Theorem C15_listen_unchecked_static_key_refuted : exists got sig_ok, recv_enc_gen false got true false sig_ok = EncPanic.
Proof. exists EncAuthMsgLen, true. apply recv_unchecked_key_panics. unfold EncAuthMsgLen. lia. Qed.

(* of a BlocksMsg nothing reaches the downloader or the fetcher unless every momentum in it hashes to the hash it
   states (they file a delivered momentum under its stated hash and height); one that does not makes the message a
   protocol error of its sender *)
Theorem C15_forged_momentum_not_delivered : forall H size own,
  (handle H size (RBlocks own) = ONoReply -> Forall (fun b => b = true) own) /\
  (size <= ProtocolMaxMsgSize -> In false own -> handle H size (RBlocks own) = OErr ErrDecode).
Proof. intros. split; [apply forged_momentum_not_delivered|apply forged_momentum_is_protocol_error]. Qed.
(* record (fixed in /repo, d69e7b3): a requested hash stated over another height was handed to the downloader, whose
   errInvalidChain then cost the honest peer of the synchronisation its connection *)
Theorem C15_forged_momentum_delivered_refuted : exists own, In false own /\ blocks_delivery_unchecked own = ONoReply.
Proof. exact forged_momentum_delivered_refuted. Qed.

(* record of finding F2 (fixed in /repo): an unknown hash made GetMomentumsByHash dereference nil *)
Theorem C15_unknown_hash_panic_refuted :
  exists H amount, 1 <= H /\ in_u64 amount /\ handle_gen false true true H 0 (RGetHashes None amount) = OPanic.
Proof. exact unknown_hash_panic_refuted. Qed.
(* record of finding F3 (fixed in /repo): Number=0, Amount=0 returned every hash of the chain *)
Theorem C15_hashes_unbounded_refuted :
  exists H number amount l, in_u64 number /\ in_u64 amount /\
    handle_gen true false true H 0 (RGetHashesFromNumber number amount) = OHashes l /\ MaxHashFetch < Z.of_nat (length l).
Proof. exact hashes_unbounded_refuted. Qed.

(* record of the reply-size finding (fixed in /repo, 580df5c): 128 requests for one momentum of 1.6 MB *)
Theorem C15_blocks_bytes_unbounded_refuted :
  exists H items l tot, Forall (wf_item H) items /\ handle_gen true true false H 0 (RGetBlocks items) = OBlocks l tot /\ ProtocolMaxMsgSize < tot.
Proof. exact blocks_bytes_unbounded_refuted. Qed.

(* ---- the live discovery endpoint (Discv.v): what the node does with a datagram that decoded ---- *)

(* nodeFromRPC: no address of any length and content, no port, reaches an index or a slice out of range *)
Theorem C15_neighbor_entry_no_panic : forall ip udp, node_from_rpc ip udp <> Panic /\ node_ip ip <> Panic.
Proof. exact node_from_rpc_no_panic. Qed.

(* a packet that does not decode, is expired, is a reply, comes with another version, or is a findnode of a node
   without a bond makes the handler write NOTHING to the socket *)
Theorem C15_discovery_refused_packet_sends_nothing : forall kind decodes ts now version known closest,
  decodes = false \/ expired ts now = true \/ kind = dvPong \/ kind = dvNeighbors \/ (kind = dvFindnode /\ known = false)
  \/ (kind = dvPing /\ version <> dvVersion) \/ (kind < 1 \/ 4 < kind) ->
  disc_handle kind decodes ts now version known closest = (0, 0, 0).
Proof. exact disc_handle_refused. Qed.

(* what one datagram makes the handler send: at most one pong, or one answer set of at most ceil(bucketSize/maxNeighbors)
   datagrams with at most bucketSize entries altogether *)
Theorem C15_discovery_answer_bounded : forall kind decodes ts now version known closest,
  0 <= closest <= dvBucketSize ->
  let '(pongs, dgrams, nodes) := disc_handle kind decodes ts now version known closest in
  0 <= pongs <= 1 /\ 0 <= dgrams /\ dgrams * dvMaxNeighbors < dvBucketSize + dvMaxNeighbors /\ 0 <= nodes <= dvBucketSize
  /\ (nodes = 0 \/ nodes = closest) /\ (pongs = 0 \/ dgrams = 0).
Proof. exact disc_handle_bounded. Qed.

(* the chunking loop of the answer, for every number of entries and every datagram capacity *)
Theorem C15_findnode_answer_chunks : forall c m, 0 <= c -> 1 <= m ->
  let l := findnode_answer c m in
  zsum l = c /\ Forall (fun x => 1 <= x <= m) l /\ Z.of_nat (length l) * m < c + m.
Proof. exact findnode_answer_spec. Qed.

(* every uint64 expiration: accepted iff strictly in the future AND below the wrap of the internal seconds; the past,
   the values from 2^63 - unixToInternal on and everything from 2^63 on are refused *)
Theorem C15_discovery_expiration : forall ts now, 0 <= ts < two64 -> 0 <= now < 2 ^ 62 ->
  (expired ts now = false <-> (now < ts /\ ts < two63 - unixToInternal)).
Proof. exact expired_spec. Qed.

(* the reply callback of findnode looks at fewer than bucketSize entries plus one datagram, however many datagrams arrive *)
Theorem C15_findnode_reply_bounded : forall replies M nrecv, 0 <= M -> Forall (fun n => 0 <= n <= M) replies ->
  nrecv + looked_at nrecv replies <= Z.max nrecv (dvBucketSize - 1 + M) /\ 0 <= looked_at nrecv replies.
Proof. exact looked_at_bounded. Qed.

(* the pending-reply queue: an unsolicited reply changes nothing; no reply makes the queue longer, touches the waiters
   for other senders or packet types, or moves a deadline *)
Theorem C15_unsolicited_reply_changes_nothing : forall q from ptype n,
  forallb (fun p => negb (matches from ptype p)) q = true -> got_reply q from ptype n = (q, false).
Proof. exact got_reply_unsolicited. Qed.
Theorem C15_reply_never_grows_pending : forall q from ptype n,
  (length (fst (got_reply q from ptype n)) <= length q)%nat /\
  filter (fun p => negb (matches from ptype p)) (fst (got_reply q from ptype n)) = filter (fun p => negb (matches from ptype p)) q.
Proof. intros. split; [apply got_reply_shrinks|apply got_reply_others]. Qed.
Theorem C15_reply_never_moves_a_deadline : forall q from ptype n p',
  In p' (fst (got_reply q from ptype n)) ->
  exists p, In p q /\ p_from p' = p_from p /\ p_type p' = p_type p /\ p_deadline p' = p_deadline p.
Proof. exact got_reply_deadlines. Qed.

Example C15_discovery_example :
  node_from_rpc [] 30303 = Ok true /\                                   (* an address of length zero is taken *)
  node_from_rpc [224;0;0;1] 30303 = Ok false /\ node_from_rpc [0;0;0;0] 30303 = Ok false /\
  node_from_rpc [127;0;0;1] 0 = Ok false /\ node_from_rpc (repeat 255 17) 1 = Ok true /\
  node_from_rpc (v4InV6Prefix ++ [0;0;0;0]) 1 = Ok false /\
  first_byte_test [] = Panic /\                                         (* what an unguarded ip[0] does with it *)
  findnode_answer 16 12 = [12; 4] /\ findnode_answer 12 12 = [12] /\ findnode_answer 0 12 = [] /\
  disc_handle dvFindnode true 2000000000 1800000000 0 true 16 = (0, 2, 16) /\
  disc_handle dvFindnode true 2000000000 1800000000 0 false 16 = (0, 0, 0) /\
  disc_handle dvPing true 9223372036854775807 1800000000 4 true 16 = (0, 0, 0) /\   (* 2^63-1: the internal seconds wrap *)
  findnode_collect [8; 8; 8] = [true; true; false] /\ findnode_collect [1; 17; 1] = [true; true; false].
Proof. vm_compute. repeat split; reflexivity. Qed.

(* non-vacuity *)
Example C15_handle_example :
  handle 600 20 (RGetHashesFromNumber 595 512) = OHashes [600;599;598;597;596;595] /\
  handle 600 20 (RGetHashesFromNumber 0 0) = OHashes [] /\
  handle 600 20 (RGetHashes None 5) = OHashes [] /\
  handle 600 20 (RGetBlocks [IKnown 3 500; IUnknown; IKnown 7 600]) = OBlocks [3;7] 1100.
Proof. vm_compute. repeat split; reflexivity. Qed.
Example C15_base_msg_example :
  react true 9 PingMsg [192] = RPong /\
  react true 9 DiscMsg [193; 4] = RClosed (Some 4) /\          (* [DiscTooManyPeers] is echoed *)
  react true 9 DiscMsg [192] = RClosed (Some 0) /\             (* empty list: reason 0 *)
  react true 9 DiscMsg [] = RClosed (Some 0) /\
  react true 9 DiscMsg [193; 1] = RClosed None /\              (* network error: not echoed *)
  react true 9 DiscMsg [194; 4] = RClosed (Some 0) /\          (* truncated list under an input limit *)
  react false 9 DiscMsg [194; 4] = RClosed (Some 4) /\         (* the same bytes from a reader without a limit *)
  react true 9 25 [192] = RClosed None /\ react true 9 24 [192] = RStay /\ react true 9 0 [1;2;3] = RStay /\
  base_handle_gen 0 true 9 DiscMsg [192] = HPanic /\                (* a decode target without an element panics *)
  setup_conn true 3 DiscMsg [192] false 0 false false false = SRefused (Some 0).
Proof. vm_compute. repeat split; reflexivity. Qed.
Example C15_enc_handshake_example :
  listen_conn 307 true true true true 100 HandshakeMsg [] true BaseProtocolVersion false true = CPeer /\
  listen_conn 307 true false true true 100 HandshakeMsg [] true BaseProtocolVersion false true = CRefusedEnc /\   (* static key off the curve *)
  listen_conn 306 true true true true 100 HandshakeMsg [] true BaseProtocolVersion false true = CRefusedEnc /\
  listen_conn 307 true true true false 100 HandshakeMsg [] true BaseProtocolVersion false true = CRefusedProto /\ (* secrets not known *)
  listen_conn 307 true true true true 100 HandshakeMsg [] true BaseProtocolVersion false false = CRefusedProto /\ (* another identity *)
  dial_conn 210 true true true 100 HandshakeMsg [] true BaseProtocolVersion false true = CPeer /\
  dial_conn 210 true false true 100 HandshakeMsg [] true BaseProtocolVersion false true = CRefusedEnc.             (* ephemeral key off the curve *)
Proof. vm_compute. repeat split; reflexivity. Qed.
