(* C08 — Committing or rolling back a momentum is atomic across a crash. Statements only.
   Trusted: goleveldb applies one Write(batch) atomically (checked against the real storage by fault injection
   at every journal write, incl. torn writes, in harness/cmd/c07/crash.go). *)
From ZV Require Import Prelude.
From stdpp Require Import gmap.
From ZV Require Import Store StoreSpec StoreProofs StoreTheorems Crash CrashProofs.
Open Scope Z_scope.

(* whenever the process dies while a commit is in progress, the store on disk is exactly the state before or
   exactly the state after: frontier pointer, every key, redo and undo patches *)
Theorem C08_commit_atomic : forall m prev cid data p k,
  (k <= length (add_writes m prev cid data p))%nat ->
  crash_after m (add_writes m prev cid data p) k = durable m \/
  (exists m' ok, mgr_add m prev cid data p = ROk m' ok /\ crash_after m (add_writes m prev cid data p) k = durable m').
Proof. exact add_writes_atomic. Qed.

Theorem C08_rollback_atomic : forall m k,
  (k <= length (pop_writes m))%nat ->
  crash_after m (pop_writes m) k = durable m \/
  (exists m' ok, mgr_pop m = ROk m' ok /\ crash_after m (pop_writes m) k = durable m').
Proof. exact pop_writes_atomic. Qed.

(* continuing after the restart (views and caches are lost) behaves like the specification continued from the
   same chain: in particular re-delivering the momentum, or a competing one, reaches the state a node without
   the crash reaches *)
Theorem C08_restart_refines : forall s a ops,
  Rel s a -> wf_ops (ASt (a_chain a) ∅) ops ->
  run (St (durable (s_mgr s)) ∅) ops = arun (ASt (a_chain a) ∅) ops.
Proof. exact restart_refines. Qed.

(* for EVERY reachable store (Inv: reached through any history of commits / rollbacks / view traffic), every admissible commit or
   rollback and every crash point in it: the reopened store refines the specification chain before the operation or the chain
   after it - so C08_restart_refines applies to whatever the crash left *)
Theorem C08_crash_in_commit_recovers_to_spec : forall m c prev cid data p k,
  Inv m c -> wf_op c (OAdd prev cid data p) -> (k <= length (add_writes m prev cid data p))%nat ->
  Inv (crash_after m (add_writes m prev cid data p) k) c \/
  Inv (crash_after m (add_writes m prev cid data p) k)
      (CE cid (abs_apply (a_front c) (p ++ frontier_ops cid data)) (p ++ frontier_ops cid data) :: c).
Proof. exact crash_in_commit_refines. Qed.

Theorem C08_crash_in_rollback_recovers_to_spec : forall m c k,
  Inv m c -> c <> [] -> (k <= length (pop_writes m))%nat ->
  Inv (crash_after m (pop_writes m) k) c \/ Inv (crash_after m (pop_writes m) k) (tail c).
Proof. exact crash_in_rollback_refines. Qed.

Theorem C08_redeliver : forall m c cid data p,
  Inv m c -> wf_op c (OAdd (a_front_id c) cid data p) ->
  exists m', mgr_add (durable m) (a_front_id c) cid data p = ROk m' true /\
             Inv m' (CE cid (abs_apply (a_front c) (p ++ frontier_ops cid data)) (p ++ frontier_ops cid data) :: c).
Proof. exact redeliver_after_crash. Qed.

(* record of the defect found (fixed): with the separate puts of the old code there is a crash point at which the
   store is neither in the state before nor in the state after *)
Theorem C08_unbatched_refuted :
  exists k, (k <= length (add_writes_unbatched f8_m zero_id f8_cid [] f8_patch))%nat /\
    let st := crash_after f8_m (add_writes_unbatched f8_m zero_id f8_cid [] f8_patch) k in
    st <> durable f8_m /\
    (forall m' ok, mgr_add f8_m zero_id f8_cid [] f8_patch = ROk m' ok -> st <> durable m').
Proof. exact unbatched_refuted. Qed.

Example C08_example_writes : length (add_writes mgr_init zero_id ([7], 1) [] [PPut [5] [1]]) = 1%nat.
Proof. vm_compute. reflexivity. Qed.
